(* classic/clvm_tools/node_path.rs compose_paths: the shift / mask loop, over N, and its meaning:
   composing two paths is appending their step lists (ported from the design-phase spike). *)
From CV Require Import Base.Prelude Clvm.Path.
From Coq Require Import PArith.

Fixpoint cp_loop_n (fuel : nat) (temp path1 mask : N) : N * N :=
  match fuel with
  | O => (path1, mask)
  | S f => if 1 <? temp then cp_loop_n f (N.shiftr temp 1) (N.shiftl path1 1) (N.shiftl mask 1)
           else (path1, mask)
  end.
Definition compose_paths_n (p0 p1 : N) : N :=
  let '(p1', mask) := cp_loop_n (N.to_nat (N.size p0)) p0 p1 1 in
  N.lor p1' (N.land p0 (mask - 1)).

Fixpoint plen (p : positive) : nat :=
  match p with xH => O | xO r => S (plen r) | xI r => S (plen r) end.

Lemma shiftr1_xO r : N.shiftr (Npos (xO r)) 1 = Npos r. Proof. reflexivity. Qed.
Lemma shiftr1_xI r : N.shiftr (Npos (xI r)) 1 = Npos r. Proof. reflexivity. Qed.

Lemma cp_loop_spec : forall p fuel a m, (plen p < fuel)%nat ->
  cp_loop_n fuel (Npos p) a m = (N.shiftl a (N.of_nat (plen p)), N.shiftl m (N.of_nat (plen p))).
Proof.
  induction p as [r IH|r IH|]; intros fuel a m Hf; destruct fuel as [|f]; try (cbn in Hf; lia).
  - cbn [cp_loop_n plen]. assert (E : (1 <? N.pos r~1) = true) by (apply N.ltb_lt; lia). rewrite E.
    rewrite shiftr1_xI, IH by (cbn in Hf; lia).
    rewrite !N.shiftl_shiftl. f_equal; f_equal; lia.
  - cbn [cp_loop_n plen]. assert (E : (1 <? N.pos r~0) = true) by (apply N.ltb_lt; lia). rewrite E.
    rewrite shiftr1_xO, IH by (cbn in Hf; lia).
    rewrite !N.shiftl_shiftl. f_equal; f_equal; lia.
  - cbn. rewrite !N.shiftl_0_r. reflexivity.
Qed.

Lemma plen_size p : (plen p < N.to_nat (N.size (Npos p)))%nat.
Proof.
  cbn [N.size]. rewrite positive_N_nat.
  induction p; cbn [plen Pos.size]; rewrite ?Pos2Nat.inj_succ; try lia.
Qed.

Lemma plen_bounds p : 2 ^ N.of_nat (plen p) <= Npos p < 2 ^ N.of_nat (S (plen p)).
Proof.
  induction p as [r IH|r IH|]; cbn [plen]; rewrite ?Nat2N.inj_succ, ?N.pow_succ_r' in *; try lia.
Qed.

Lemma papp_val p q : Npos (papp p q) = Npos q * 2 ^ N.of_nat (plen p) + (Npos p - 2 ^ N.of_nat (plen p)).
Proof.
  induction p as [r IH|r IH|]; cbn [papp plen].
  - rewrite Nat2N.inj_succ, N.pow_succ_r'.
    change (N.pos (papp r q)~1) with (2 * N.pos (papp r q) + 1). rewrite IH.
    change (N.pos r~1) with (2 * N.pos r + 1).
    assert (2 ^ N.of_nat (plen r) <= N.pos r) by apply plen_bounds.
    lia.
  - rewrite Nat2N.inj_succ, N.pow_succ_r'.
    change (N.pos (papp r q)~0) with (2 * N.pos (papp r q)). rewrite IH.
    change (N.pos r~0) with (2 * N.pos r).
    assert (2 ^ N.of_nat (plen r) <= N.pos r) by apply plen_bounds.
    lia.
  - cbn. lia.
Qed.

Theorem compose_paths_spec : forall p q, compose_paths_n (Npos p) (Npos q) = Npos (papp p q).
Proof.
  intros p q. unfold compose_paths_n.
  rewrite cp_loop_spec by apply plen_size.
  set (k := N.of_nat (plen p)).
  rewrite N.shiftl_1_l.
  replace (2 ^ k - 1) with (N.ones k) by (rewrite N.ones_equiv; lia).
  rewrite N.land_ones, N.shiftl_mul_pow2.
  rewrite papp_val. fold k.
  pose proof (plen_bounds p) as [Hlo Hhi]. fold k in Hlo. rewrite Nat2N.inj_succ, N.pow_succ_r' in Hhi. fold k in Hhi.
  assert (Hmod : N.pos p mod 2 ^ k = N.pos p - 2 ^ k).
  { symmetry. apply N.mod_unique with (q := 1); lia. }
  rewrite Hmod.
  assert (Hdisj : N.land (N.pos q * 2 ^ k) (N.pos p - 2 ^ k) = 0).
  { apply N.bits_inj_0. intros n. rewrite N.land_spec.
    destruct (N.lt_ge_cases n k).
    + rewrite N.mul_pow2_bits_low by assumption. reflexivity.
    + replace (N.testbit (N.pos p - 2 ^ k) n) with false; [apply andb_false_r|].
      symmetry. destruct (N.eq_dec (N.pos p - 2 ^ k) 0) as [->|Hnz]; [apply N.bits_0|].
      apply N.bits_above_log2. apply N.log2_lt_pow2; [lia|].
      apply N.lt_le_trans with (2 ^ k); [lia|]. apply N.pow_le_mono_r; lia. }
  rewrite <- N.lxor_lor by exact Hdisj.
  rewrite <- N.add_nocarry_lxor by exact Hdisj. reflexivity.
Qed.

(* hence: following the composed path = following the first, then the second *)
Corollary compose_paths_traverse : forall p q e,
  traverse_N (compose_paths_n (Npos p) (Npos q)) e = res_bind (traverse_pos p e) (traverse_pos q).
Proof. intros. rewrite compose_paths_spec. cbn [traverse_N]. apply traverse_papp. Qed.
