(* Environment paths: clvmr traverse_path semantics (reference) and node_path.rs arithmetic. *)
From CV Require Import Base.Prelude Base.Val Base.Bytes.

(* bits of the path are consumed least-significant first; the most significant set bit is the sentinel *)
Fixpoint traverse_pos (p : positive) (e : val) : res val :=
  match p with
  | xH => Ok e
  | xO q => match e with Cons a _ => traverse_pos q a | Atom _ => Fail end
  | xI q => match e with Cons _ b => traverse_pos q b | Atom _ => Fail end
  end.

Definition traverse_N (n : N) (e : val) : res val :=
  match n with N0 => Ok nilv | Npos p => traverse_pos p e end.

(* clvmr traverse_path on the raw path atom: leading zero bytes are skipped, all-zero or empty is nil,
   i.e. only the unsigned big-endian value of the atom matters *)
Definition traverse (b : bytes) (e : val) : res val := traverse_N (be_unsigned b) e.

(* path composition: first follow p, then q *)
Fixpoint papp (p q : positive) : positive :=
  match p with xH => q | xO r => xO (papp r q) | xI r => xI (papp r q) end.

Lemma traverse_papp p q e :
  traverse_pos (papp p q) e = res_bind (traverse_pos p e) (traverse_pos q).
Proof.
  revert e; induction p as [r IH|r IH|]; intros e; cbn [papp traverse_pos res_bind].
  - destruct e; [reflexivity|apply IH].
  - destruct e; [reflexivity|apply IH].
  - reflexivity.
Qed.
