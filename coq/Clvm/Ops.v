(* An executable instance of the operator oracle for the operators the generators use, following
   clvmr core_ops.rs / more_ops.rs. Needed only to *run* models (correspondence, consensus tie);
   no theorem depends on it. Unknown operators fail (the tools run with NO_UNKNOWN_OPS). *)
From CV Require Import Base.Prelude Base.Val Base.Bytes.

Fixpoint args_list (v : val) : list val :=
  match v with Cons x r => x :: args_list r | Atom _ => [] end.

Definition enc_int (z : Z) : val := Atom (bigint_to_bytes_clvm z).
Definition as_int (v : val) : option Z := match v with Atom b => Some (be_signed b) | Cons _ _ => None end.
Definition as_atom (v : val) : option bytes := match v with Atom b => Some b | Cons _ _ => None end.

Fixpoint all_some {A} (l : list (option A)) : option (list A) :=
  match l with
  | [] => Some []
  | Some x :: r => match all_some r with Some xs => Some (x :: xs) | None => None end
  | None :: _ => None
  end.

Definition ints (args : list val) : option (list Z) := all_some (map as_int args).
Definition atoms (args : list val) : option (list bytes) := all_some (map as_atom args).
Definition truthy (v : val) : bool := negb (nilp v).
Definition bool_val (b : bool) : val := if b then Atom [1] else nilv.

Fixpoint bytes_ltb (a b : bytes) : bool :=   (* a < b lexicographically *)
  match a, b with
  | _, [] => false
  | [], _ :: _ => true
  | x :: a', y :: b' => if x <? y then true else if y <? x then false else bytes_ltb a' b'
  end.

Definition opf_exec (op : bytes) (operands : val) : option val :=
  let args := args_list operands in
  match op with
  | [3] => match args with [c; a; b] => Some (if truthy c then a else b) | _ => None end
  | [4] => match args with [a; b] => Some (Cons a b) | _ => None end
  | [5] => match args with [Cons a _] => Some a | _ => None end
  | [6] => match args with [Cons _ b] => Some b | _ => None end
  | [7] => match args with [Cons _ _] => Some (Atom [1]) | [Atom _] => Some nilv | _ => None end
  | [8] => None
  | [9] => match args with [Atom a; Atom b] => Some (bool_val (bytes_eqb a b)) | _ => None end
  | [10] => match args with [Atom a; Atom b] => Some (bool_val (bytes_ltb b a)) | _ => None end
  | [13] => match args with [Atom a] => Some (enc_int (Z.of_nat (length a))) | _ => None end
  | [14] => match atoms args with Some l => Some (Atom (concat l)) | None => None end
  | [16] => match ints args with Some l => Some (enc_int (fold_left Z.add l 0%Z)) | None => None end
  | [17] => match ints args with
            | Some [] => Some (enc_int 0)
            | Some (x :: r) => Some (enc_int (fold_left Z.sub r x))
            | None => None end
  | [18] => match ints args with Some l => Some (enc_int (fold_left Z.mul l 1%Z)) | None => None end
  | [19] => match args with
            | [Atom a; Atom b] => let y := be_signed b in
                if Z.eqb y 0 then None else Some (enc_int (Z.div (be_signed a) y))
            | _ => None end
  | [20] => match args with
            | [Atom a; Atom b] => let x := be_signed a in let y := be_signed b in
                if Z.eqb y 0 then None else Some (Cons (enc_int (Z.div x y)) (enc_int (Z.modulo x y)))
            | _ => None end
  | [21] => match args with [Atom a; Atom b] => Some (bool_val (Z.ltb (be_signed b) (be_signed a))) | _ => None end
  | [32] => match args with [a] => Some (bool_val (negb (truthy a))) | _ => None end
  | [33] => Some (bool_val (existsb truthy args))
  | [34] => Some (bool_val (forallb truthy args))
  | _ => None
  end.
