(* The consensus evaluation relation (clvmr run_program: eval_pair / eval_op_atom / apply_op) as a
   fuelled big-step function. Operators other than quote and apply go through the section variable
   [opf] (clvmr Dialect::op on the operator atom's bytes and the operand list value; softfork is an
   operator in this sense and is outside the generators). Cost and allocator limits are not modelled. *)
From CV Require Import Base.Prelude Base.Val Base.Bytes Clvm.Path.

(* match_args::<N>: exactly n leading elements, any atom as terminator *)
Fixpoint args_n (n : nat) (v : val) : option (list val) :=
  match n, v with
  | O, Atom _ => Some []
  | O, Cons _ _ => None
  | S _, Atom _ => None
  | S k, Cons x r => match args_n k r with Some l => Some (x :: l) | None => None end
  end.

Section Eval.
Variable opf : bytes -> val -> option val.

(* evaluate an operand list: the nil terminator is required; later operands are evaluated first *)
Fixpoint eval_list (ev : val -> res val) (args : val) : res val :=
  match args with
  | Atom [] => Ok nilv
  | Atom _ => Fail
  | Cons x r =>
      match eval_list ev r with
      | Ok vs => match ev x with Ok v => Ok (Cons v vs) | Fail => Fail | Oof => Oof end
      | Fail => Fail
      | Oof => Oof
      end
  end.

Definition quote_atom : bytes := [1].
Definition apply_atom : bytes := [2].

Fixpoint eval (n : nat) (p e : val) : res val :=
  match n with
  | O => Oof
  | S n =>
      let apply (op : bytes) (operands : val) : res val :=
        if bytes_eqb op apply_atom then
          match args_n 2 operands with
          | Some [q; e'] => eval n q e'
          | _ => Fail
          end
        else match opf op operands with Some v => Ok v | None => Fail end in
      match p with
      | Atom b => traverse b e
      | Cons (Atom op) args =>
          if bytes_eqb op quote_atom then Ok args
          else match eval_list (fun x => eval n x e) args with
               | Ok vs => apply op vs
               | Fail => Fail
               | Oof => Oof
               end
      | Cons (Cons x t) args =>
          (* ((X) . args): X a lone atom, the operands are passed unevaluated *)
          match x, t with
          | Atom opx, Atom _ => apply opx args
          | _, _ => Fail
          end
      end
  end.

End Eval.
