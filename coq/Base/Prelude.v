(* Shared small definitions: byte strings as [list N], names from Coq strings,
   association-list lookup with HashMap-insert semantics, result type. *)
From Coq Require Export List NArith ZArith Bool Lia.
From Coq Require Import String Ascii.
Export ListNotations.
Open Scope N_scope.

Arguments N.add : simpl never.
Arguments N.sub : simpl never.
Arguments N.mul : simpl never.
Arguments N.eqb : simpl never.
Arguments N.ltb : simpl never.
Arguments N.leb : simpl never.

Definition bytes := list N.

Fixpoint str (s : string) : bytes :=
  match s with
  | EmptyString => []
  | String c r => N_of_ascii c :: str r
  end.

Fixpoint bytes_eqb (a b : bytes) : bool :=
  match a, b with
  | [], [] => true
  | x :: a', y :: b' => (x =? y) && bytes_eqb a' b'
  | _, _ => false
  end.

Lemma bytes_eqb_eq a b : bytes_eqb a b = true <-> a = b.
Proof.
  revert b; induction a as [|x a IH]; destruct b as [|y b]; cbn; try (split; congruence).
  rewrite andb_true_iff, N.eqb_eq, IH. split; [intros [-> ->]; reflexivity | intros E; inversion E; auto].
Qed.

Lemma bytes_eqb_refl a : bytes_eqb a a = true.
Proof. apply bytes_eqb_eq; reflexivity. Qed.

Lemma bytes_eqb_neq a b : bytes_eqb a b = false <-> a <> b.
Proof.
  split.
  - intros E H. apply bytes_eqb_eq in H. congruence.
  - intros H. destruct (bytes_eqb a b) eqn:E; [apply bytes_eqb_eq in E; contradiction | reflexivity].
Qed.

Inductive cmp_kind := CmpEq | CmpLe | CmpLt | CmpGe | CmpGt | CmpNe.
Definition cmp_eval (c : cmp_kind) (a b : N) : bool :=
  match c with
  | CmpEq => a =? b | CmpLe => a <=? b | CmpLt => a <? b
  | CmpGe => b <=? a | CmpGt => b <? a | CmpNe => negb (a =? b)
  end.

(* Result of a fuelled computation. *)
Inductive res (A : Type) := Ok (a : A) | Fail | Oof.
Arguments Ok {A} a. Arguments Fail {A}. Arguments Oof {A}.

Definition res_bind {A B} (r : res A) (f : A -> res B) : res B :=
  match r with Ok a => f a | Fail => Fail | Oof => Oof end.

(* Association list with the semantics of inserting rows in order into a HashMap:
   a later row with the same key replaces the earlier one. *)
Section Assoc.
  Context {K V : Type} (keq : K -> K -> bool).
  Fixpoint assoc_last (l : list (K * V)) (k : K) : option V :=
    match l with
    | [] => None
    | (k', v) :: r =>
        match assoc_last r k with
        | Some v' => Some v'
        | None => if keq k' k then Some v else None
        end
    end.
  Fixpoint assoc_first (l : list (K * V)) (k : K) : option V :=
    match l with
    | [] => None
    | (k', v) :: r => if keq k' k then Some v else assoc_first r k
    end.
End Assoc.
