(* CLVM values: atoms are byte strings (bytes as N, each < 256 in well-formed values). *)
From CV Require Import Base.Prelude.

Inductive val := Atom (b : bytes) | Cons (a b : val).

Definition nilv : val := Atom [].

Definition nilp (v : val) : bool := match v with Atom [] => true | _ => false end.

Fixpoint val_eqb (a b : val) : bool :=
  match a, b with
  | Atom x, Atom y => bytes_eqb x y
  | Cons a1 a2, Cons b1 b2 => val_eqb a1 b1 && val_eqb a2 b2
  | _, _ => false
  end.

Lemma val_eqb_eq a b : val_eqb a b = true <-> a = b.
Proof.
  revert b; induction a as [x|a1 IH1 a2 IH2]; destruct b as [y|b1 b2]; cbn; try (split; congruence).
  - rewrite bytes_eqb_eq. split; congruence.
  - rewrite andb_true_iff, IH1, IH2. split; [intros [-> ->]; reflexivity | intros E; inversion E; auto].
Qed.

Lemma val_eqb_refl a : val_eqb a a = true.
Proof. apply val_eqb_eq; reflexivity. Qed.

Fixpoint wf_bytes (b : bytes) : bool :=
  match b with [] => true | x :: r => (x <? 256) && wf_bytes r end.

Fixpoint wf_val (v : val) : bool :=
  match v with Atom b => wf_bytes b | Cons a b => wf_val a && wf_val b end.

(* proper list view *)
Fixpoint to_list (v : val) : option (list val) :=
  match v with
  | Atom [] => Some []
  | Atom _ => None
  | Cons a b => match to_list b with Some l => Some (a :: l) | None => None end
  end.

Fixpoint of_list (l : list val) : val :=
  match l with [] => nilv | x :: r => Cons x (of_list r) end.

Lemma to_list_of_list l : to_list (of_list l) = Some l.
Proof. induction l as [|x r IH]; cbn; [reflexivity|]. rewrite IH. reflexivity. Qed.

Fixpoint val_size (v : val) : nat :=
  match v with Atom _ => 1%nat | Cons a b => S (val_size a + val_size b) end.
