(* Integer <-> byte-string casts as written in /repo:
   classic/clvm/casts.rs (int_from_bytes, bigint_from_bytes, bigint_to_bytes_x),
   classic/clvm/__type_compatibility__.rs (get_u32, from Gen/Consts.v),
   util/mod.rs (number_from_u8, u8_from_number). *)
From CV Require Import Base.Prelude Gen.Consts.

(* ---------- reference meanings ---------- *)
Fixpoint be_acc (acc : N) (b : bytes) : N :=
  match b with [] => acc | x :: r => be_acc (acc * 256 + x) r end.
Definition be_unsigned (b : bytes) : N := be_acc 0 b.

Definition be_signed (b : bytes) : Z :=
  match b with
  | [] => 0%Z
  | x :: _ => if 128 <=? x then (Z.of_N (be_unsigned b) - 2 ^ (8 * Z.of_nat (length b)))%Z
              else Z.of_N (be_unsigned b)
  end.

(* ---------- casts.rs as written ---------- *)
Definition get_u32 (v : bytes) (n : nat) : N :=
  get_u32_expr (nth n v 0) (nth (n + 1) v 0) (nth (n + 2) v 0) (nth (n + 3) v 0).

Definition two64 : N := 18446744073709551616.
Definition two32 : N := 4294967296.

(* for i_reverse in 0..bytes4_length { i = bytes4_length - i_reverse - 1; ... } : i runs k-1 .. 0 *)
Fixpoint groups_loop (k : nat) (remain : nat) (dv : bytes) (u order : N) (wrap : option N) : N * N :=
  match k with
  | O => (u, order)
  | S i =>
      let u' := u + get_u32 dv (i * 4 + remain) * order in
      let o' := order * two32 in
      match wrap with
      | Some m => groups_loop i remain dv (u' mod m) (o' mod m) wrap
      | None => groups_loop i remain dv u' o' wrap
      end
  end.

Fixpoint remain_loop (k : nat) (dv : bytes) (u order : N) (wrap : option N) : N * N :=
  match k with
  | O => (u, order)
  | S i =>
      let u' := u + nth i dv 0 * order in
      let o' := order * 256 in
      match wrap with
      | Some m => remain_loop i dv (u' mod m) (o' mod m) wrap
      | None => remain_loop i dv u' o' wrap
      end
  end.

Definition from_bytes_core (dv : bytes) (wrap : option N) : N :=
  let len := length dv in
  let remain := Nat.modulo len 4 in
  let l4 := Nat.div (len - remain) 4 in
  let '(u, order) := groups_loop l4 remain dv 0 1 wrap in
  let order := if Nat.eqb l4 0 then 1 else order in
  fst (remain_loop remain dv u order wrap).

(* int_from_bytes(b, None): u64 arithmetic; None = the "larger than 64bit" error *)
Definition int_from_bytes (b : bytes) : option N :=
  match b with
  | [] => Some 0
  | _ => if (64 <? 8 * N.of_nat (length b)) then None else Some (from_bytes_core b (Some two64))
  end.

(* bigint_from_bytes(b, None | signed) *)
Definition bigint_from_bytes_unsigned (b : bytes) : N :=
  match b with [] => 0 | _ => from_bytes_core b None end.
Definition bigint_from_bytes_signed (b : bytes) : Z :=
  match b with
  | [] => 0%Z
  | x :: _ => if N.testbit x 7 then (Z.of_N (from_bytes_core b None) - 2 ^ (8 * Z.of_nat (length b)))%Z
              else Z.of_N (from_bytes_core b None)
  end.

(* big-endian digits of a natural, no leading zero; 0 -> [] *)
Fixpoint be_digits_pos (fuel : nat) (n : N) (acc : bytes) : bytes :=
  match fuel with
  | O => acc
  | S f => if n =? 0 then acc else be_digits_pos f (N.shiftr n 8) (N.land n 255 :: acc)
  end.
Definition be_digits (n : N) : bytes := be_digits_pos (S (N.to_nat (N.size n))) n [].

(* bigint_to_bytes_unsigned: v >= 0 only (asserted in the source) *)
Definition bigint_to_bytes_unsigned (n : N) : bytes := be_digits n.

(* minimal two's complement big-endian encoding: num_bigint to_signed_bytes_be then
   leading-zero stripping as in bigint_to_bytes_clvm / u8_from_number *)
Definition signed_bytes_be (z : Z) : bytes :=
  match z with
  | Z0 => [0]    (* num_bigint gives [0] for zero *)
  | Zpos p => let d := be_digits (Npos p) in
              match d with x :: _ => if 128 <=? x then 0 :: d else d | [] => [0] end
  | Zneg p =>
      (* smallest k with -2^(8k-1) <= z ; encode z + 2^(8k) *)
      let m := Npos p in
      let k := N.to_nat ((N.size (m - 1) + 8) / 8) in
      let k := if (k =? 0)%nat then 1%nat else k in
      let v := 2 ^ (8 * N.of_nat k) - m in
      let d := be_digits v in
      (* pad on the left with 0 to k bytes (cannot happen for minimal k, kept for totality) *)
      repeat 0 (k - length d) ++ d
  end.

Fixpoint strip_zeros (b : bytes) : bytes :=
  match b with
  | 0 :: ((y :: _) as r) => if N.testbit y 7 then b else strip_zeros r
  | [0] => []
  | _ => b
  end.

Definition bigint_to_bytes_clvm (z : Z) : bytes := strip_zeros (signed_bytes_be z).
