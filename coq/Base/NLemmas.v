(* Arithmetic / bitwise helper lemmas over N used by the codec and path proofs. *)
From CV Require Import Base.Prelude.
From Coq Require Import ZifyN ZifyNat ZifyBool.
Ltac Zify.zify_post_hook ::= Z.div_mod_to_equations.

Definition nrange (n : nat) : list N := map N.of_nat (seq 0 n).

Lemma nrange_in n x : x < N.of_nat n -> In x (nrange n).
Proof.
  intros H. unfold nrange. apply in_map_iff. exists (N.to_nat x). split; [lia|].
  apply in_seq. lia.
Qed.

Lemma forall_nrange (P : N -> bool) n :
  forallb P (nrange n) = true -> forall x, x < N.of_nat n -> P x = true.
Proof. intros H x Hx. rewrite forallb_forall in H. apply H. apply nrange_in. exact Hx. Qed.

(* disjoint or is addition *)
Lemma lor_add_low hi lo k : lo < 2 ^ k -> hi mod 2 ^ k = 0 -> N.lor hi lo = hi + lo.
Proof.
  intros Hlo Hhi.
  assert (Hdisj : N.land hi lo = 0).
  { apply N.bits_inj_0. intros n. rewrite N.land_spec.
    destruct (N.lt_ge_cases n k) as [Hn|Hn].
    - assert (E : N.testbit hi n = false).
      { rewrite <- (N.mod_pow2_bits_low hi k n Hn). rewrite Hhi. apply N.bits_0. }
      rewrite E. reflexivity.
    - assert (E : N.testbit lo n = false).
      { destruct (N.eq_dec lo 0) as [->|Hnz]; [apply N.bits_0|].
        apply N.bits_above_log2. apply N.log2_lt_pow2; [lia|].
        apply N.lt_le_trans with (2 ^ k); [exact Hlo|]. apply N.pow_le_mono_r; lia. }
      rewrite E. apply andb_false_r. }
  rewrite <- N.lxor_lor by exact Hdisj.
  rewrite <- N.add_nocarry_lxor by exact Hdisj. reflexivity.
Qed.

Lemma land_255 a : N.land a 255 = a mod 256.
Proof. change 255 with (N.ones 8). rewrite N.land_ones. reflexivity. Qed.

Lemma shiftr_div a k : N.shiftr a k = a / 2 ^ k.
Proof. apply N.shiftr_div_pow2. Qed.

Lemma shiftl_mul a k : N.shiftl a k = a * 2 ^ k.
Proof. apply N.shiftl_mul_pow2. Qed.
