(* compiler/cldb.rs CldbRun::step as a row machine over the stepping machine of Step/Stepper.v:
   an Op state with all operands evaluated opens a pending row (operator, arguments); the next
   OpResult state closes it with its value; Done ends the trace with the final value; a failure of
   run_step ends it with a failure entry. The row counter increases by one per emitted row. *)
From CV Require Import Base.Prelude Base.Val Base.Bytes Clvm.Path Clvm.Eval Step.Stepper.

Inductive row :=
| ROp (n : nat) (h : bytes) (args : val) (v : val)      (* Row n: Operator h, Arguments args, Value v *)
| RValue (n : nat) (v : val)                           (* an OpResult without a pending operator is not printed; kept for completeness: never emitted *)
| RFinal (v : val)
| RFailure.

Record cstate := mkC { cur : st; pending : option (bytes * val); rown : nat; ended : bool }.

Section Cldb.
Variable opf : bytes -> val -> option val.

Definition cstep (c : cstate) : cstate * option row :=
  match run_step opf (cur c) with
  | None => (mkC (cur c) (pending c) (S (rown c)) true, Some RFailure)
  | Some s' =>
      match s' with
      | SOpResult v _ =>
          match pending c with
          | Some (h, args) => (mkC s' None (S (rown c)) false, Some (ROp (rown c) h args v))
          | None => (mkC s' None (rown c) false, None)
          end
      | SDone v => (mkC s' (pending c) (S (rown c)) true, Some (RFinal v))
      | SOp h _ acc None _ => (mkC s' (Some (h, acc)) (rown c) false, None)
      | _ => (mkC s' (pending c) (rown c) false, None)
      end
  end.

Fixpoint trace (fuel : nat) (c : cstate) : list row :=
  match fuel with
  | O => []
  | S f => if ended c then []
           else let '(c', r) := cstep c in
                match r with Some x => x :: trace f c' | None => trace f c' end
  end.

Definition cldb_start (p e : val) : cstate := mkC (start p e) None 0 false.

(* what an operator with its operands means to the machine (native c f r, everything else the oracle) *)
Definition op_meaning (h : bytes) (acc : val) : option val :=
  match to_list acc with
  | None => None
  | Some vs =>
      let a := head_value h in
      if Z.eqb a 4 then match vs with [x; y] => Some (Cons x y) | _ => None end
      else if Z.eqb a 5 then match vs with [Cons x _] => Some x | _ => None end
      else if Z.eqb a 6 then match vs with [Cons _ y] => Some y | _ => None end
      else opf h acc
  end.

End Cldb.
