(* compiler/clvm.rs: the stepping evaluator (RunStep machine, run_step, combine, eval_args, run),
   over CLVM values (the rich<->CLVM conversions around it are the subject of C07).
   Strict core: operators are used by the numeric value of the head atom (as atom_value does);
   the name lookup of translate_head and the ((X) ...) head evaluation are not modelled (the model
   fails on a pair head); they are the recorded leniency classes of C06. *)
From CV Require Import Base.Prelude Base.Val Base.Bytes Clvm.Path Clvm.Eval.

Inductive st :=
| SDone (v : val)
| SOpResult (v : val) (k : st)
| SOp (h : bytes) (ctx acc : val) (rest : option (list val)) (k : st)
| SStep (p ctx : val) (k : st).

(* combine(Done v, k) *)
Fixpoint combine_done (v : val) (k : st) : st :=
  match k with
  | SDone _ => SDone v
  | SOp h ctx acc (Some rem) k' => SOp h ctx (Cons v acc) (Some rem) k'
  | SOp _ _ _ None k' => combine_done v k'
  | SStep _ _ k' => combine_done v k'
  | SOpResult _ _ => SDone v
  end.

Definition pop_last (l : list val) : option (list val * val) :=
  match rev l with [] => None | x :: r => Some (rev r, x) end.

Definition head_value (h : bytes) : Z := be_signed h.

Section Machine.
Variable opf : bytes -> val -> option val.

(* None = RunFailure *)
Definition run_step (s : st) : option st :=
  match s with
  | SDone v => Some (SDone v)
  | SOpResult v k => Some (combine_done v k)
  | SStep p ctx k =>
      match p with
      | Atom b => match traverse b ctx with Ok v => Some (SOpResult v s) | _ => None end
      | Cons (Atom h) args =>
          if Z.eqb (head_value h) 1 then Some (combine_done args s)
          else match to_list args with
               | Some l => Some (SOp h ctx nilv (Some l) k)
               | None => None
               end
      | Cons (Cons _ _) _ => None
      end
  | SOp h ctx acc (Some rest) k =>
      match pop_last rest with
      | Some (rest', x) => Some (SStep x ctx (SOp h ctx acc (Some rest') k))
      | None => Some (SOp h ctx acc None k)
      end
  | SOp h ctx acc None k =>
      match to_list acc with
      | None => None
      | Some vs =>
          let a := head_value h in
          if Z.eqb a 2 then match vs with [q; e'] => Some (SStep q e' k) | _ => None end
          else if Z.eqb a 3 then
            match vs with [c; x; y] => Some (combine_done (if nilp c then y else x) s) | _ => None end
          else if Z.eqb a 4 then
            match vs with [x; y] => Some (SOpResult (Cons x y) s) | _ => None end
          else if Z.eqb a 5 then
            match vs with [Cons x _] => Some (SOpResult x s) | _ => None end
          else if Z.eqb a 6 then
            match vs with [Cons _ y] => Some (SOpResult y s) | _ => None end
          else match opf h acc with Some v => Some (SOpResult v s) | None => None end
      end
  end.

Fixpoint iter (m : nat) (s : st) : option st :=
  match m with
  | O => Some s
  | S m => match run_step s with Some s' => iter m s' | None => None end
  end.

Definition start (p e : val) : st := SStep p e (SDone p).

(* run with an iteration limit: Ok v / Fail / Oof (limit) *)
Fixpoint run (limit : nat) (s : st) : res val :=
  match limit with
  | O => Oof
  | S l => match run_step s with
           | None => Fail
           | Some (SDone v) => Ok v
           | Some s' => run l s'
           end
  end.

(* the consensus relation restricted to programs that never evaluate a ((X) ...) form, with operand
   lists as Coq lists (equivalent to Clvm.Eval.eval there: StepperProofs.eval_nph_eval) *)
Fixpoint evl (ev : val -> res val) (l : list val) : res (list val) :=
  match l with
  | [] => Ok []
  | x :: r => match evl ev r with
              | Ok vs => match ev x with Ok v => Ok (v :: vs) | Fail => Fail | Oof => Oof end
              | Fail => Fail
              | Oof => Oof
              end
  end.

Fixpoint eval_nph (n : nat) (p e : val) : res val :=
  match n with
  | O => Oof
  | S n =>
      match p with
      | Atom b => traverse b e
      | Cons (Atom op) args =>
          if bytes_eqb op quote_atom then Ok args
          else match to_list args with
               | None => Fail
               | Some l =>
                   match evl (fun x => eval_nph n x e) l with
                   | Ok vs =>
                       if bytes_eqb op apply_atom then
                         match vs with [q; e'] => eval_nph n q e' | _ => Fail end
                       else match opf op (of_list vs) with Some v => Ok v | None => Fail end
                   | Fail => Fail
                   | Oof => Oof
                   end
               end
      | Cons (Cons _ _) _ => Fail
      end
  end.

End Machine.
