From CV Require Import Base.Prelude Base.Val Base.Bytes Clvm.Path Clvm.Eval Step.Stepper Step.Cldb.

Section P.
Variable opf : bytes -> val -> option val.
Notation cstep := (cstep opf).
Notation trace := (trace opf).
Notation run_step := (run_step opf).

(* the invariant that makes rows true: a pending row (h, acc) with h neither apply nor if is pending
   exactly while the machine sits in the state Op h _ acc None _ *)
Definition not_a_i (h : bytes) : bool := negb (Z.eqb (head_value h) 2) && negb (Z.eqb (head_value h) 3).

Definition pending_ok (c : cstate) : Prop :=
  forall h acc, pending c = Some (h, acc) -> not_a_i h = true ->
    exists ctx k, cur c = SOp h ctx acc None k.

Lemma run_step_op_result h ctx acc k s' : not_a_i h = true ->
  run_step (SOp h ctx acc None k) = Some s' ->
  exists v, s' = SOpResult v (SOp h ctx acc None k) /\ op_meaning opf h acc = Some v.
Proof.
  unfold not_a_i. intros Hn H. apply andb_true_iff in Hn. destruct Hn as [H2 H3].
  apply negb_true_iff in H2, H3. cbn [Stepper.run_step] in H. unfold op_meaning.
  destruct (to_list acc) as [vs|]; [|discriminate]. rewrite H2, H3 in H.
  destruct (Z.eqb (head_value h) 4).
  { destruct vs as [|x [|y [|? ?]]]; try discriminate. inversion H; subst. eexists; split; reflexivity. }
  destruct (Z.eqb (head_value h) 5).
  { destruct vs as [|[|x x'] [|? ?]]; try discriminate. inversion H; subst. eexists; split; reflexivity. }
  destruct (Z.eqb (head_value h) 6).
  { destruct vs as [|[|x x'] [|? ?]]; try discriminate. inversion H; subst. eexists; split; reflexivity. }
  destruct (opf h acc) as [v|]; [|discriminate]. inversion H; subst. eexists; split; reflexivity.
Qed.

Lemma cstep_preserves c : pending_ok c -> pending_ok (fst (cstep c)).
Proof.
  intros Hp. unfold cstep. destruct (run_step (cur c)) as [s'|] eqn:E.
  - destruct s' as [v|v k|h ctx acc [rest|] k|p ctx k]; cbn [fst].
    + (* Done *) intros h acc Hpend Hn. cbn [pending cur] in *.
      destruct (Hp h acc Hpend Hn) as (ctx & k & Hc). rewrite Hc in E.
      destruct (run_step_op_result _ _ _ _ _ Hn E) as (v0 & Hs & _). discriminate.
    + (* OpResult *) destruct (pending c) as [[h0 a0]|]; intros h acc Hpend; cbn in Hpend; discriminate.
    + (* Op Some *) intros h0 acc0 Hpend Hn. cbn [pending cur] in *.
      destruct (Hp h0 acc0 Hpend Hn) as (ctx0 & k0 & Hc). rewrite Hc in E.
      destruct (run_step_op_result _ _ _ _ _ Hn E) as (v0 & Hs & _). discriminate.
    + (* Op None: opens a pending row for exactly this state *)
      intros h0 acc0 Hpend Hn. cbn [pending cur] in *. inversion Hpend; subst. eexists; eexists; reflexivity.
    + (* Step *) intros h0 acc0 Hpend Hn. cbn [pending cur] in *.
      destruct (Hp h0 acc0 Hpend Hn) as (ctx0 & k0 & Hc). rewrite Hc in E.
      destruct (run_step_op_result _ _ _ _ _ Hn E) as (v0 & Hs & _). discriminate.
  - cbn [fst]. exact Hp.
Qed.

Lemma cstep_row_true c h args v n : pending_ok c -> snd (cstep c) = Some (ROp n h args v) ->
  not_a_i h = true -> op_meaning opf h args = Some v /\ n = rown c.
Proof.
  intros Hp H Hn. unfold cstep in H. destruct (run_step (cur c)) as [s'|] eqn:E; [|discriminate].
  destruct s' as [v0|v0 k|h0 ctx acc [rest|] k|p ctx k]; cbn [snd] in H; try discriminate.
  destruct (pending c) as [[h1 a1]|] eqn:Ep; [|discriminate]. inversion H; subst.
  destruct (Hp h args Ep Hn) as (ctx & k0 & Hc). rewrite Hc in E.
  destruct (run_step_op_result _ _ _ _ _ Hn E) as (v1 & Hs & Hm). inversion Hs; subst. split; [exact Hm|reflexivity].
Qed.

(* every row of the trace that reports an operator (other than apply and if), its arguments and a
   value is true: that operator applied to those arguments gives that value *)
Theorem rows_true : forall fuel c, pending_ok c ->
  forall n h args v, In (ROp n h args v) (trace fuel c) -> not_a_i h = true -> op_meaning opf h args = Some v.
Proof.
  induction fuel as [|f IH]; intros c Hp n h args v Hin Hn; [contradiction|].
  cbn [Cldb.trace] in Hin. destruct (ended c); [contradiction|].
  pose proof (cstep_preserves c Hp) as Hp'. pose proof (cstep_row_true c) as Hr.
  destruct (cstep c) as [c' r]. cbn [fst snd] in *.
  destruct r as [x|].
  - destruct Hin as [Hx|Hin].
    + subst x. exact (proj1 (Hr h args v n Hp eq_refl Hn)).
    + apply (IH c' Hp' n h args v Hin Hn).
  - apply (IH c' Hp' n h args v Hin Hn).
Qed.

(* the trace ends with Final v exactly when the stepping machine reaches Done v *)
Theorem final_is_machine_result : forall fuel c v, In (RFinal v) (trace fuel c) ->
  exists m, iter opf m (cur c) = Some (SDone v).
Proof.
  induction fuel as [|f IH]; intros c v Hin; [contradiction|].
  cbn [Cldb.trace] in Hin. destruct (ended c); [contradiction|].
  unfold Cldb.cstep in Hin. destruct (Stepper.run_step opf (cur c)) as [s'|] eqn:E.
  - assert (Hnext : forall c', cur c' = s' -> In (RFinal v) (trace f c') -> exists m, iter opf m (cur c) = Some (SDone v)).
    { intros c' Hc Hi. destruct (IH c' v Hi) as [m Hm]. exists (S m). cbn [iter]. rewrite E. rewrite Hc in Hm. exact Hm. }
    destruct s' as [v0|v0 k|h0 ctx acc [rest|] k|p ctx k].
    + destruct Hin as [Hx|Hin].
      * inversion Hx; subst. exists 1%nat. cbn [iter]. rewrite E. reflexivity.
      * eapply Hnext; [|exact Hin]. reflexivity.
    + destruct (pending c) as [[h1 a1]|].
      * destruct Hin as [Hx|Hin]; [discriminate|]. eapply Hnext; [|exact Hin]. reflexivity.
      * eapply Hnext; [|exact Hin]. reflexivity.
    + eapply Hnext; [|exact Hin]. reflexivity.
    + eapply Hnext; [|exact Hin]. reflexivity.
    + eapply Hnext; [|exact Hin]. reflexivity.
  - destruct Hin as [Hx|Hin]; [discriminate|].
    (* after a failure the state is ended *)
    destruct f; [contradiction|]. cbn [Cldb.trace ended] in Hin. contradiction.
Qed.

Lemma pending_ok_start p e : pending_ok (cldb_start p e).
Proof. intros h acc H. discriminate. Qed.

End P.
