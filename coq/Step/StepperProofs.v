(* The stepping machine simulates the consensus evaluation relation (forward direction, values):
   whenever consensus evaluation returns v without evaluating a ((X) ...) form, the machine reaches
   Done v, for every continuation. Ported from the design-phase spike. *)
From CV Require Import Base.Prelude Base.Val Base.Bytes Clvm.Path Clvm.Eval Step.Stepper.

Section Proofs.
Variable opf : bytes -> val -> option val.

(* the operator oracle is strict about the operators the machine implements natively:
   it knows them only under their canonical one-byte spelling, with the machine's meaning *)
Definition native_value (h : bytes) : bool :=
  let a := head_value h in (Z.leb 1 a) && (Z.leb a 6).
Hypothesis strict_spelling : forall h args v, opf h args = Some v -> native_value h = true ->
  exists o, h = [o] /\ o < 256.
Hypothesis opf_if : forall vs, opf [3] (of_list vs) =
  match vs with [c; x; y] => Some (if nilp c then y else x) | _ => None end.
Hypothesis opf_cons : forall vs, opf [4] (of_list vs) =
  match vs with [x; y] => Some (Cons x y) | _ => None end.
Hypothesis opf_first : forall vs, opf [5] (of_list vs) =
  match vs with [Cons x _] => Some x | _ => None end.
Hypothesis opf_rest : forall vs, opf [6] (of_list vs) =
  match vs with [Cons _ y] => Some y | _ => None end.

Notation iter := (iter opf).
Notation run_step := (run_step opf).
Notation eval_nph := (eval_nph opf).

Lemma iter_add a b s : iter (a + b) s = match iter a s with Some s' => iter b s' | None => None end.
Proof. revert s; induction a; intros s; cbn; auto. destruct (run_step s); auto. Qed.

Lemma evl_snoc ev r x : evl ev (r ++ [x]) =
  match ev x with
  | Ok v => match evl ev r with Ok vs => Ok (vs ++ [v]) | Fail => Fail | Oof => Oof end
  | Fail => Fail | Oof => Oof end.
Proof.
  induction r as [|y r IH]; cbn [app evl].
  - destruct (ev x); reflexivity.
  - rewrite IH. destruct (ev x); auto. destruct (evl ev r); auto. destruct (ev y); auto.
Qed.

Lemma pop_last_snoc r x : pop_last (r ++ [x]) = Some (r, x).
Proof. unfold pop_last. rewrite rev_app_distr. cbn. rewrite rev_involutive. reflexivity. Qed.

Fixpoint app_val (vs : list val) (acc : val) : val :=
  match vs with [] => acc | v :: r => Cons v (app_val r acc) end.

Lemma app_val_snoc vs v acc : app_val (vs ++ [v]) acc = app_val vs (Cons v acc).
Proof. induction vs; cbn; congruence. Qed.

Lemma app_val_nil vs : app_val vs nilv = of_list vs.
Proof. induction vs; cbn; congruence. Qed.

(* evaluating the operands one by one, last first, accumulating into the tail *)
Lemma args_fwd ev h ctx K :
  (forall x v, ev x = Ok v -> forall K', exists m, iter m (SStep x ctx K') = Some (combine_done v K')) ->
  forall l vs, evl ev l = Ok vs -> forall acc,
    exists m, iter m (SOp h ctx acc (Some l) K) = Some (SOp h ctx (app_val vs acc) None K).
Proof.
  intros Hok l. induction l as [|x r IH] using rev_ind; intros vs E acc.
  - cbn in E. inversion E; subst. exists 1%nat. reflexivity.
  - rewrite evl_snoc in E. destruct (ev x) as [v| |] eqn:Ex; try discriminate.
    destruct (evl ev r) as [vs'| |] eqn:Er; try discriminate. inversion E; subst vs.
    destruct (Hok x v Ex (SOp h ctx acc (Some r) K)) as [m1 H1].
    destruct (IH vs' eq_refl (Cons v acc)) as [m2 H2].
    exists (1 + m1 + m2)%nat. rewrite <- Nat.add_assoc. cbn [Nat.add Stepper.iter Stepper.run_step].
    rewrite pop_last_snoc. rewrite iter_add, H1. cbn [combine_done]. rewrite H2.
    rewrite app_val_snoc. reflexivity.
Qed.

Lemma head_value_1 : head_value [1] = 1%Z. Proof. reflexivity. Qed.

Lemma native_single o : o < 256 -> native_value [o] = true -> o = 1 \/ o = 2 \/ o = 3 \/ o = 4 \/ o = 5 \/ o = 6.
Proof.
  unfold native_value, head_value, be_signed, be_unsigned. cbn [be_acc length].
  change (2 ^ (8 * Z.of_nat 1))%Z with 256%Z.
  intros Ho. destruct (N.leb_spec 128 o) as [E|E]; intros H; apply andb_true_iff in H; destruct H as [H1 H2];
    apply Z.leb_le in H1, H2; lia.
Qed.

Theorem forward : forall n p e v, eval_nph n p e = Ok v ->
  forall K, exists m, iter m (SStep p e K) = Some (combine_done v K).
Proof.
  induction n as [|n IH]; intros p e v H K; [discriminate|].
  destruct p as [b|[op|? ?] args]; cbn [Stepper.eval_nph] in H.
  - (* path *)
    exists 2%nat. cbn [Stepper.iter Stepper.run_step]. rewrite H. reflexivity.
  - destruct (bytes_eqb op quote_atom) eqn:Eq.
    + (* quote *)
      apply bytes_eqb_eq in Eq. subst op. inversion H; subst.
      exists 1%nat. reflexivity.
    + destruct (to_list args) as [l|] eqn:El; [|discriminate].
      destruct (evl (fun x => eval_nph n x e) l) as [vs| |] eqn:Ev; try discriminate.
      (* the head is not the quote atom; is it read as 1 by the machine? only if the oracle knows it,
         which strict_spelling excludes; but if apply, opf is not consulted: handle by cases *)
      assert (Hargs : forall K', exists m, iter m (SOp op e nilv (Some l) K') = Some (SOp op e (of_list vs) None K')).
      { intros K'. destruct (args_fwd (fun x => eval_nph n x e) op e K' (fun x v0 E => IH x e v0 E) l vs Ev nilv) as [m Hm].
        exists m. rewrite Hm. rewrite app_val_nil. reflexivity. }
      destruct (bytes_eqb op apply_atom) eqn:Ea.
      * apply bytes_eqb_eq in Ea. subst op. unfold apply_atom in *.
        destruct vs as [|q [|e' [|? ?]]]; try discriminate.
        destruct (Hargs K) as [m Hm]. destruct (IH q e' v H K) as [m2 H2].
        exists (1 + (m + (1 + m2)))%nat. cbn [Nat.add Stepper.iter]. cbn [Stepper.run_step].
        change (Z.eqb (head_value [2]) 1) with false. cbv iota. rewrite El.
        rewrite iter_add, Hm. cbn [Nat.add Stepper.iter Stepper.run_step].
        rewrite to_list_of_list. change (Z.eqb (head_value [2]) 2) with true. cbv iota. exact H2.
      * destruct (opf op (of_list vs)) as [r|] eqn:Eo; [|discriminate]. inversion H; subst r.
        (* the machine's reading of the head *)
        destruct (native_value op) eqn:En.
        -- destruct (strict_spelling _ _ _ Eo En) as [o [-> Ho]].
           destruct (native_single o Ho En) as [->|[->|[->|[->|[->| ->]]]]].
           ++ discriminate Eq.
           ++ discriminate Ea.
           ++ rewrite opf_if in Eo. destruct vs as [|c [|x [|y [|? ?]]]]; try discriminate. inversion Eo; subst v.
              destruct (Hargs K) as [m Hm]. exists (1 + (m + 1))%nat.
              cbn [Nat.add Stepper.iter]. cbn [Stepper.run_step].
              change (Z.eqb (head_value [3]) 1) with false. cbv iota. rewrite El.
              rewrite iter_add, Hm. cbn [Stepper.iter Stepper.run_step]. rewrite to_list_of_list.
              change (Z.eqb (head_value [3]) 2) with false. change (Z.eqb (head_value [3]) 3) with true. cbv iota.
              reflexivity.
           ++ rewrite opf_cons in Eo. destruct vs as [|x [|y [|? ?]]]; try discriminate. inversion Eo; subst v.
              destruct (Hargs K) as [m Hm]. exists (1 + (m + 2))%nat.
              cbn [Nat.add Stepper.iter]. cbn [Stepper.run_step].
              change (Z.eqb (head_value [4]) 1) with false. cbv iota. rewrite El.
              rewrite iter_add, Hm. cbn [Stepper.iter Stepper.run_step]. rewrite to_list_of_list.
              change (Z.eqb (head_value [4]) 2) with false. change (Z.eqb (head_value [4]) 3) with false.
              change (Z.eqb (head_value [4]) 4) with true. cbv iota. reflexivity.
           ++ rewrite opf_first in Eo. destruct vs as [|[|x x'] [|? ?]]; try discriminate. inversion Eo; subst v.
              destruct (Hargs K) as [m Hm]. exists (1 + (m + 2))%nat.
              cbn [Nat.add Stepper.iter]. cbn [Stepper.run_step].
              change (Z.eqb (head_value [5]) 1) with false. cbv iota. rewrite El.
              rewrite iter_add, Hm. cbn [Stepper.iter Stepper.run_step]. rewrite to_list_of_list.
              change (Z.eqb (head_value [5]) 2) with false. change (Z.eqb (head_value [5]) 3) with false.
              change (Z.eqb (head_value [5]) 4) with false. change (Z.eqb (head_value [5]) 5) with true. cbv iota. reflexivity.
           ++ rewrite opf_rest in Eo. destruct vs as [|[|x x'] [|? ?]]; try discriminate. inversion Eo; subst v.
              destruct (Hargs K) as [m Hm]. exists (1 + (m + 2))%nat.
              cbn [Nat.add Stepper.iter]. cbn [Stepper.run_step].
              change (Z.eqb (head_value [6]) 1) with false. cbv iota. rewrite El.
              rewrite iter_add, Hm. cbn [Stepper.iter Stepper.run_step]. rewrite to_list_of_list.
              change (Z.eqb (head_value [6]) 2) with false. change (Z.eqb (head_value [6]) 3) with false.
              change (Z.eqb (head_value [6]) 4) with false. change (Z.eqb (head_value [6]) 5) with false.
              change (Z.eqb (head_value [6]) 6) with true. cbv iota. reflexivity.
        -- (* not a native value: the machine asks the oracle *)
           unfold native_value in En.
           assert (N1 : Z.eqb (head_value op) 1 = false /\ Z.eqb (head_value op) 2 = false /\
                        Z.eqb (head_value op) 3 = false /\ Z.eqb (head_value op) 4 = false /\
                        Z.eqb (head_value op) 5 = false /\ Z.eqb (head_value op) 6 = false).
           { apply andb_false_iff in En. repeat split; apply Z.eqb_neq; intros E0; rewrite E0 in En;
               destruct En as [En|En]; discriminate En. }
           destruct N1 as (N1 & N2 & N3 & N4 & N5 & N6).
           destruct (Hargs K) as [m Hm]. exists (1 + (m + 2))%nat.
           cbn [Nat.add Stepper.iter]. cbn [Stepper.run_step]. rewrite N1, El.
           rewrite iter_add, Hm. cbn [Stepper.iter Stepper.run_step]. rewrite to_list_of_list.
           rewrite N2, N3, N4, N5, N6, Eo. reflexivity.
  - discriminate.
Qed.

(* iterating to a Done state is what run returns *)
Lemma run_of_iter : forall m s v, iter m s = Some (SDone v) ->
  exists l, forall l', (l <= l')%nat -> run opf l' s = Ok v \/ exists w, s = SDone w.
Proof.
  induction m as [|m IH]; intros s v H.
  - cbn in H. inversion H; subst. exists 0%nat. intros l' _. right. eexists; reflexivity.
  - cbn [Stepper.iter] in H. destruct (run_step s) as [s'|] eqn:Es; [|discriminate].
    destruct (IH s' v H) as [l Hl]. exists (S l). intros l' Hle.
    destruct l' as [|l']; [lia|]. left. cbn [run]. rewrite Es.
    destruct (Hl l' ltac:(lia)) as [Hr|[w ->]].
    + destruct s'; try exact Hr. (* s' = SDone: iter from SDone stays *)
      clear - H. assert (forall k u, iter k (SDone u) = Some (SDone u)) as Hd
        by (induction k; intros; cbn; auto).
      rewrite Hd in H. inversion H; reflexivity.
    + assert (forall k u, iter k (SDone u) = Some (SDone u)) as Hd by (induction k; intros; cbn; auto).
      rewrite Hd in H. inversion H; reflexivity.
Qed.

Theorem stepper_returns_consensus_value : forall n p e v, eval_nph n p e = Ok v ->
  exists l, forall l', (l <= l')%nat -> run opf l' (start p e) = Ok v.
Proof.
  intros n p e v H. destruct (forward n p e v H (SDone p)) as [m Hm].
  cbn [combine_done] in Hm. destruct (run_of_iter m _ v Hm) as [l Hl].
  exists l. intros l' Hle. destruct (Hl l' Hle) as [Hr|[w Hw]]; [exact Hr|discriminate Hw].
Qed.

(* eval_nph is the consensus relation on programs that never evaluate a ((X) ...) form *)
Lemma evl_eval_list ev l : eval_list ev (of_list l) =
  match evl ev l with Ok vs => Ok (of_list vs) | Fail => Fail | Oof => Oof end.
Proof.
  induction l as [|x r IH]; cbn [of_list eval_list evl nilv]; [reflexivity|].
  rewrite IH. destruct (evl ev r); try reflexivity. destruct (ev x); reflexivity.
Qed.

Lemma to_list_inv v l : to_list v = Some l -> v = of_list l.
Proof.
  revert l; induction v as [b|a _ d IH]; intros l H; cbn [to_list] in H.
  - destruct b; [|discriminate]. inversion H; reflexivity.
  - destruct (to_list d) as [l'|]; [|discriminate]. inversion H; subst. cbn [of_list]. rewrite (IH l' eq_refl). reflexivity.
Qed.

Lemma args_n_2_of_list q e' : args_n 2 (of_list [q; e']) = Some [q; e'].
Proof. reflexivity. Qed.

Theorem eval_nph_eval : forall n p e v, eval_nph n p e = Ok v -> eval opf n p e = Ok v.
Proof.
  induction n as [|n IH]; intros p e v H; [discriminate|].
  destruct p as [b|[op|? ?] args]; cbn [Stepper.eval_nph] in H; cbn [eval].
  - exact H.
  - destruct (bytes_eqb op quote_atom); [exact H|].
    destruct (to_list args) as [l|] eqn:El; [|discriminate].
    apply to_list_inv in El. subst args. rewrite evl_eval_list.
    assert (Hev : forall vs, evl (fun x => eval_nph n x e) l = Ok vs -> evl (fun x => eval opf n x e) l = Ok vs).
    { clear H. induction l as [|x r IHr]; intros vs E; cbn [evl] in *; [exact E|].
      destruct (evl (fun x0 => eval_nph n x0 e) r) as [vr| |]; try discriminate.
      rewrite (IHr vr eq_refl). destruct (eval_nph n x e) as [vx| |] eqn:Ex; try discriminate.
      rewrite (IH _ _ _ Ex). exact E. }
    destruct (evl (fun x => eval_nph n x e) l) as [vs| |] eqn:Ev; try discriminate.
    rewrite (Hev vs eq_refl).
    destruct (bytes_eqb op apply_atom).
    + destruct vs as [|q [|e' [|? ?]]]; try discriminate. rewrite args_n_2_of_list. apply IH. exact H.
    + exact H.
  - discriminate.
Qed.

End Proofs.
