(* compiler/codegen.rs create_name_lookup_: the environment path of a name in a parameter tree
   (atoms name parameters, conses destructure, (@ name pattern) captures the whole sub-argument), and
   the reference notion of "the component of the argument value bound to the name". *)
From CV Require Import Base.Prelude Base.Val Clvm.Path.

Inductive pat :=
| PName (n : bytes)            (* a parameter name *)
| PCons (h r : pat)
| PAt (cap : bytes) (sub : pat)   (* (@ cap sub) *)
| POther.                      (* nil / anything that binds nothing *)

(* create_name_lookup_ (the u64 arithmetic 2*v, 2*v+1 is exact below 64 levels; positive has no bound) *)
Fixpoint lookup (p : pat) (name : bytes) : option positive :=
  match p with
  | PName a => if bytes_eqb a name then Some xH else None
  | PCons h r =>
      match lookup h name with
      | Some v => Some (xO v)
      | None => match lookup r name with Some v => Some (xI v) | None => None end
      end
  | PAt cap sub => if bytes_eqb cap name then Some xH else lookup sub name
  | POther => None
  end.

(* the value a name is bound to when [env] is destructured by the pattern (first occurrence wins,
   head before rest, a capture before its sub-pattern) *)
Fixpoint select (p : pat) (name : bytes) (env : val) : option val :=
  match p with
  | PName a => if bytes_eqb a name then Some env else None
  | PCons h r =>
      match env with
      | Cons eh er =>
          match lookup h name with
          | Some _ => select h name eh
          | None => select r name er
          end
      | Atom _ => None
      end
  | PAt cap sub => if bytes_eqb cap name then Some env else select sub name env
  | POther => None
  end.

Theorem lookup_correct : forall p name path env v,
  lookup p name = Some path -> select p name env = Some v -> traverse_pos path env = Ok v.
Proof.
  induction p as [a|h IHh r IHr|cap sub IH|]; intros name path env v Hl Hs; cbn [lookup select] in *.
  - destruct (bytes_eqb a name); [|discriminate]. inversion Hl; inversion Hs; subst. reflexivity.
  - destruct env as [b|eh er]; [discriminate|].
    destruct (lookup h name) as [vh|] eqn:Eh.
    + inversion Hl; subst. cbn [traverse_pos]. apply (IHh name vh eh v Eh Hs).
    + destruct (lookup r name) as [vr|] eqn:Er; [|discriminate]. inversion Hl; subst.
      cbn [traverse_pos]. apply (IHr name vr er v Er Hs).
  - destruct (bytes_eqb cap name).
    + inversion Hl; inversion Hs; subst. reflexivity.
    + apply (IH name path env v Hl Hs).
  - discriminate.
Qed.

(* a name the pattern binds always has a path, and the path never depends on the argument value *)
Theorem lookup_total : forall p name env v, select p name env = Some v -> exists path, lookup p name = Some path.
Proof.
  induction p as [a|h IHh r IHr|cap sub IH|]; intros name env v Hs; cbn [lookup select] in *.
  - destruct (bytes_eqb a name); [eexists; reflexivity|discriminate].
  - destruct env as [b|eh er]; [discriminate|].
    destruct (lookup h name) as [vh|] eqn:Eh; [eexists; reflexivity|].
    destruct (IHr name er v Hs) as [pr Hr]. rewrite Hr. eexists; reflexivity.
  - destruct (bytes_eqb cap name); [eexists; reflexivity|]. apply (IH name env v Hs).
  - discriminate.
Qed.
