(* util/mod.rs toposort (orders the bindings of assign forms; codegen.rs toposort_assign_bindings) and
   codegen.rs hoist_assign_form's split of the order into stages of parallel lets.
   toposort: rounds over the not yet placed tail of the vector; every round collects the positions whose
   needs are already provided and swaps them, in position order, to the front of the tail; a round that
   finds nothing is the deadlock (circular bindings) error. Keys are natural numbers; sets are lists. *)
From CV Require Import Base.Prelude.

Record item := mkItem { idx : nat; needs : list nat; has : list nat }.

Definition subset (a b : list nat) : bool := forallb (fun x => existsb (Nat.eqb x) b) a.

Definition ready (done : list nat) (it : item) : bool := subset (needs it) done.

Fixpoint set_nth {A} (l : list A) (n : nat) (x : A) : list A :=
  match l, n with
  | [], _ => []
  | _ :: r, O => x :: r
  | y :: r, S n' => y :: set_nth r n' x
  end.

Definition swap {A} (l : list A) (i j : nat) : list A :=
  match nth_error l i, nth_error l j with
  | Some a, Some b => set_nth (set_nth l i b) j a
  | _, _ => l
  end.

(* positions (offset by k) of the ready items *)
Fixpoint ready_idxs (done : list nat) (k : nat) (l : list item) : list nat :=
  match l with
  | [] => []
  | it :: r => if ready done it then k :: ready_idxs done (S k) r else ready_idxs done (S k) r
  end.

(* "swap items into place earlier in the list": the k-th ready position is exchanged with position k *)
Fixpoint swaps {A} (l : list A) (k : nat) (idxs : list nat) : list A :=
  match idxs with
  | [] => l
  | i :: r => swaps (swap l i k) (S k) r
  end.

Fixpoint rounds (fuel : nat) (done : list nat) (finished pending : list item) : res (list item) :=
  match fuel with
  | O => Oof
  | S f =>
      match pending with
      | [] => Ok finished
      | _ =>
          let idxs := ready_idxs done 0 pending in
          match idxs with
          | [] => Fail                                      (* deadlock: circular dependency *)
          | _ =>
              let moved := swaps pending 0 idxs in
              let now := firstn (length idxs) moved in
              rounds f (done ++ flat_map has now) (finished ++ now) (skipn (length idxs) moved)
          end
      end
  end.

Definition toposort (items : list item) : res (list item) := rounds (S (length items)) [] [] items.

(* every item's needs are provided by the items placed before it *)
Fixpoint respects (provided : list nat) (order : list item) : Prop :=
  match order with
  | [] => True
  | it :: r => subset (needs it) provided = true /\ respects (provided ++ has it) r
  end.

(* hoist_assign_form: walk the order; a binding that needs something the finished stages do not provide
   closes the current stage. Returns the stages outermost first (the code reverses to build inside out). *)
Fixpoint stages (cur_prov new_prov : list nat) (this_round : list item) (acc : list (list item)) (order : list item)
  : list (list item) :=
  match order with
  | [] => match this_round with [] => acc | _ => acc ++ [this_round] end
  | s :: r =>
      if subset (needs s) cur_prov then stages cur_prov (new_prov ++ has s) (this_round ++ [s]) acc r
      else stages (cur_prov ++ new_prov) (has s) [s] (acc ++ [this_round]) r
  end.

Definition assign_stages (order : list item) : list (list item) := stages [] [] [] [] order.

(* every binding of a stage needs only what strictly earlier stages provide: the stage is a valid parallel let *)
Fixpoint stages_ok (provided : list nat) (st : list (list item)) : Prop :=
  match st with
  | [] => True
  | s :: r => (forall it, In it s -> subset (needs it) provided = true) /\ stages_ok (provided ++ flat_map has s) r
  end.
