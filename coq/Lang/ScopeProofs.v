From Coq Require Import Sorting.Sorted Sorting.Permutation.
From CV Require Import Base.Prelude Lang.Scope.

Lemma set_nth_length {A} (l : list A) n x : length (set_nth l n x) = length l.
Proof. revert n; induction l as [|y r IH]; intros [|n]; cbn; auto. Qed.

Lemma swap_length {A} (l : list A) i j : length (swap l i j) = length l.
Proof. unfold swap. destruct (nth_error l i), (nth_error l j); auto. rewrite !set_nth_length. reflexivity. Qed.

Lemma swaps_length {A} idxs : forall (l : list A) k, length (swaps l k idxs) = length l.
Proof. induction idxs as [|i r IH]; intros l k; cbn; [reflexivity|]. rewrite IH. apply swap_length. Qed.

Lemma nth_error_set_nth_same {A} (l : list A) n x : (n < length l)%nat -> nth_error (set_nth l n x) n = Some x.
Proof. revert n; induction l as [|y r IH]; intros [|n] H; cbn in *; try lia; [reflexivity|]. apply IH. lia. Qed.

Lemma nth_error_set_nth_other {A} (l : list A) n m x : n <> m -> nth_error (set_nth l n x) m = nth_error l m.
Proof. revert n m; induction l as [|y r IH]; intros [|n] [|m] H; cbn; try reflexivity; try congruence. apply IH. congruence. Qed.

Lemma ready_idxs_bound done : forall l k i, In i (ready_idxs done k l) ->
  (k <= i)%nat /\ exists x, nth_error l (i - k) = Some x /\ ready done x = true.
Proof.
  induction l as [|it r IH]; intros k i H; cbn in H; [contradiction|].
  destruct (ready done it) eqn:E.
  - destruct H as [<-|H].
    + split; [lia|]. rewrite Nat.sub_diag. exists it. split; [reflexivity|exact E].
    + apply IH in H. destruct H as (Hk & x & Hx & Hr). split; [lia|]. exists x. split; [|exact Hr].
      replace (i - k)%nat with (S (i - S k)) by lia. exact Hx.
  - apply IH in H. destruct H as (Hk & x & Hx & Hr). split; [lia|]. exists x. split; [|exact Hr].
    replace (i - k)%nat with (S (i - S k)) by lia. exact Hx.
Qed.

Lemma ready_idxs_sorted done : forall l k, StronglySorted lt (ready_idxs done k l).
Proof.
  induction l as [|it r IH]; intros k; cbn; [constructor|].
  destruct (ready done it); [|apply IH].
  constructor; [apply IH|]. apply Forall_forall. intros i Hi. apply ready_idxs_bound in Hi. lia.
Qed.

(* the swap loop leaves, in the first k + |idxs| positions, items satisfying P, provided the positions
   listed are strictly increasing, at or beyond k, and hold items satisfying P *)
Lemma swaps_front {A} (P : A -> Prop) : forall idxs (l : list A) k,
  StronglySorted lt idxs ->
  (forall i, In i idxs -> (k <= i)%nat /\ exists x, nth_error l i = Some x /\ P x) ->
  (forall j, (j < k)%nat -> exists x, nth_error l j = Some x /\ P x) ->
  forall j, (j < k + length idxs)%nat -> exists x, nth_error (swaps l k idxs) j = Some x /\ P x.
Proof.
  induction idxs as [|i r IH]; intros l k Hs Hi Hk j Hj; cbn [swaps length] in *.
  - apply Hk. lia.
  - inversion Hs as [|? ? Hs' Hlt]; subst. rewrite Forall_forall in Hlt.
    destruct (Hi i (or_introl eq_refl)) as (Hki & xi & Hxi & HPi).
    assert (Hil : (i < length l)%nat) by (apply nth_error_Some; congruence).
    assert (Hkl : (k < length l)%nat) by lia.
    destruct (nth_error l k) as [xk|] eqn:Hxk; [|apply nth_error_None in Hxk; lia].
    assert (Hsw : forall m, nth_error (swap l i k) m = if Nat.eqb m k then Some xi else if Nat.eqb m i then Some xk else nth_error l m).
    { intros m. unfold swap. rewrite Hxi, Hxk.
      destruct (Nat.eqb_spec m k) as [->|Hmk].
      - apply nth_error_set_nth_same. rewrite set_nth_length. exact Hkl.
      - rewrite nth_error_set_nth_other by congruence.
        destruct (Nat.eqb_spec m i) as [->|Hmi]; [apply nth_error_set_nth_same; exact Hil|].
        apply nth_error_set_nth_other. congruence. }
    apply (IH (swap l i k) (S k) Hs'); [| |lia].
    + intros i' Hi'. specialize (Hlt i' Hi'). destruct (Hi i' (or_intror Hi')) as (Hk' & x' & Hx' & HP').
      split; [lia|]. exists x'. split; [|exact HP']. rewrite Hsw.
      destruct (Nat.eqb_spec i' k); [lia|]. destruct (Nat.eqb_spec i' i); [lia|]. exact Hx'.
    + intros j' Hj'. rewrite Hsw. destruct (Nat.eqb_spec j' k) as [->|Hne].
      * exists xi. split; [reflexivity|exact HPi].
      * destruct (Nat.eqb_spec j' i) as [->|Hne2]; [lia|]. apply Hk. lia.
Qed.

Lemma In_firstn_nth {A} (x : A) : forall m l, In x (firstn m l) -> exists j, (j < m)%nat /\ nth_error l j = Some x.
Proof.
  induction m as [|m IH]; intros [|y r] H; cbn in H; try contradiction.
  destruct H as [<-|H]; [exists 0%nat; split; [lia|reflexivity]|].
  apply IH in H. destruct H as (j & Hj & E). exists (S j). split; [lia|exact E].
Qed.

Lemma round_now_ready done pending it :
  In it (firstn (length (ready_idxs done 0 pending)) (swaps pending 0 (ready_idxs done 0 pending))) -> ready done it = true.
Proof.
  intros H. apply In_firstn_nth in H. destruct H as (j & Hj & E).
  destruct (swaps_front (fun x => ready done x = true) (ready_idxs done 0 pending) pending 0 (ready_idxs_sorted _ _ _)) with (j := j) as (x & Hx & HP).
  - intros i Hi. apply ready_idxs_bound in Hi. rewrite Nat.sub_0_r in Hi. exact Hi.
  - intros j' Hj'. lia.
  - lia.
  - congruence.
Qed.

(* termination: the loop never runs out of rounds - it ends with an order or with the deadlock error *)
Theorem toposort_total : forall fuel done finished pending,
  (length pending < fuel)%nat -> rounds fuel done finished pending <> Oof.
Proof.
  induction fuel as [|f IH]; intros done finished pending Hf; [lia|].
  cbn [rounds]. destruct pending as [|p r]; [discriminate|].
  destruct (ready_idxs done 0 (p :: r)) as [|n0 nr] eqn:En; [discriminate|].
  apply IH. rewrite skipn_length, swaps_length. cbn [length] in *. lia.
Qed.

Lemma subset_app_mono a b c : subset a b = true -> subset a (b ++ c) = true.
Proof.
  unfold subset. rewrite !forallb_forall. intros H x Hx. specialize (H x Hx).
  rewrite existsb_exists in *. destruct H as (y & Hy & E). exists y. split; [apply in_or_app; left; exact Hy|exact E].
Qed.

Lemma respects_app provided o1 o2 :
  respects provided o1 -> respects (provided ++ flat_map has o1) o2 -> respects provided (o1 ++ o2).
Proof.
  revert provided; induction o1 as [|x r IH]; intros provided H1 H2; cbn [app flat_map] in *.
  - rewrite app_nil_r in H2. exact H2.
  - destruct H1 as [Hx Hr]. split; [exact Hx|]. apply IH; [exact Hr|]. rewrite <- app_assoc. exact H2.
Qed.

Lemma respects_ready_block done now : (forall it, In it now -> ready done it = true) -> respects done now.
Proof.
  revert done; induction now as [|x r IH]; intros done H; cbn [respects]; [exact I|].
  split; [apply (H x); left; reflexivity|].
  apply IH. intros it Hin. unfold ready. apply subset_app_mono. apply (H it). right. exact Hin.
Qed.

(* a returned order places every item after the items that provide what it needs *)
Theorem toposort_respects : forall fuel done finished pending order,
  done = flat_map has finished -> respects [] finished ->
  rounds fuel done finished pending = Ok order -> respects [] order.
Proof.
  induction fuel as [|f IH]; intros done finished pending order Hd Hr H; [discriminate|].
  cbn [rounds] in H. destruct pending as [|p r]; [inversion H; subst; exact Hr|].
  destruct (ready_idxs done 0 (p :: r)) as [|n0 nr] eqn:En; [discriminate|].
  apply (IH _ _ _ _) in H; [exact H| |].
  - rewrite flat_map_app. rewrite Hd. reflexivity.
  - apply respects_app; [exact Hr|]. cbn [app]. rewrite <- Hd.
    apply respects_ready_block. intros it Hin. rewrite <- En in Hin. apply round_now_ready in Hin. exact Hin.
Qed.

Corollary toposort_order_ok items order : toposort items = Ok order -> respects [] order.
Proof. intros H. unfold toposort in H. apply (toposort_respects _ [] [] items order eq_refl I H). Qed.

Corollary toposort_never_loops items : toposort items <> Oof.
Proof. unfold toposort. apply toposort_total. lia. Qed.

(* the order is a rearrangement of the items: nothing is dropped or duplicated *)
Lemma set_nth_perm_swap {A} : forall (l : list A) i j, Permutation (swap l i j) l.
Proof.
  intros l i j. unfold swap.
  destruct (nth_error l i) as [a|] eqn:Ea; [|reflexivity]. destruct (nth_error l j) as [b|] eqn:Eb; [|reflexivity].
  revert i j a b Ea Eb. induction l as [|y r IH]; intros [|i] [|j] a b Ea Eb; cbn in *; try discriminate.
  - inversion Ea; inversion Eb; subst. reflexivity.
  - inversion Ea; subst.
    clear IH. revert j Eb. induction r as [|z r' IH2]; intros [|j] Eb; cbn in *; try discriminate.
    + inversion Eb; subst. apply perm_swap.
    + specialize (IH2 j Eb). etransitivity; [apply perm_swap|]. etransitivity; [apply perm_skip; exact IH2|]. apply perm_swap.
  - inversion Eb; subst.
    clear IH. revert i Ea. induction r as [|z r' IH2]; intros [|i] Ea; cbn in *; try discriminate.
    + inversion Ea; subst. apply perm_swap.
    + specialize (IH2 i Ea). etransitivity; [apply perm_swap|]. etransitivity; [apply perm_skip; exact IH2|]. apply perm_swap.
  - apply perm_skip. apply IH; assumption.
Qed.

Lemma swaps_perm {A} idxs : forall (l : list A) k, Permutation (swaps l k idxs) l.
Proof. induction idxs as [|i r IH]; intros l k; cbn; [reflexivity|]. etransitivity; [apply IH|apply set_nth_perm_swap]. Qed.

Theorem toposort_perm : forall fuel done finished pending order,
  rounds fuel done finished pending = Ok order -> Permutation order (finished ++ pending).
Proof.
  induction fuel as [|f IH]; intros done finished pending order H; [discriminate|].
  cbn [rounds] in H. destruct pending as [|p r]; [inversion H; subst; rewrite app_nil_r; reflexivity|].
  destruct (ready_idxs done 0 (p :: r)) as [|n0 nr] eqn:En; [discriminate|].
  apply IH in H. etransitivity; [exact H|]. rewrite <- app_assoc. apply Permutation_app_head.
  rewrite firstn_skipn. apply swaps_perm.
Qed.

Corollary toposort_is_permutation items order : toposort items = Ok order -> Permutation order items.
Proof. intros H. apply toposort_perm in H. exact H. Qed.

(* ---- stages of parallel lets ---- *)

Definition same_set (a b : list nat) : Prop := forall x, In x a <-> In x b.

Lemma subset_spec a b : subset a b = true <-> (forall x, In x a -> In x b).
Proof.
  unfold subset. rewrite forallb_forall. split; intros H x Hx; specialize (H x Hx).
  - apply existsb_exists in H. destruct H as (y & Hy & E). apply Nat.eqb_eq in E. subst. exact Hy.
  - apply existsb_exists. exists x. split; [exact H|apply Nat.eqb_refl].
Qed.

Lemma subset_same a b c : same_set b c -> subset a b = true -> subset a c = true.
Proof. intros S. rewrite !subset_spec. intros H x Hx. apply S. apply H. exact Hx. Qed.

Lemma stages_ok_app p s1 s2 : stages_ok p s1 -> stages_ok (p ++ flat_map has (concat s1)) s2 -> stages_ok p (s1 ++ s2).
Proof.
  revert p; induction s1 as [|s r IH]; intros p H1 H2; cbn [app concat flat_map] in *.
  - rewrite app_nil_r in H2. exact H2.
  - destruct H1 as [Hs Hr]. split; [exact Hs|]. apply IH; [exact Hr|]. rewrite flat_map_app, app_assoc in H2. exact H2.
Qed.

Lemma stages_ok_same p q st : same_set p q -> stages_ok p st -> stages_ok q st.
Proof.
  revert p q; induction st as [|s r IH]; intros p q S H; cbn in *; [exact I|].
  destruct H as [Hs Hr]. split.
  - intros it Hin. eapply subset_same; [exact S|]. apply Hs. exact Hin.
  - eapply IH; [|exact Hr]. intros x. rewrite !in_app_iff. specialize (S x). tauto.
Qed.

(* invariant of the walk: cur_prov is what the closed stages provide, new_prov what the open one does, and
   the rest of the order respects their union *)
Theorem stages_sound : forall order cur_prov new_prov this_round acc,
  same_set cur_prov (flat_map has (concat acc)) ->
  same_set new_prov (flat_map has this_round) ->
  stages_ok [] acc ->
  (forall it, In it this_round -> subset (needs it) cur_prov = true) ->
  respects (cur_prov ++ new_prov) order ->
  stages_ok [] (stages cur_prov new_prov this_round acc order).
Proof.
  induction order as [|s r IH]; intros cur_prov new_prov this_round acc Hc Hn Hacc Hthis Hresp; cbn [stages].
  - assert (Hfin : stages_ok [] (acc ++ [this_round])).
    { apply stages_ok_app; [exact Hacc|]. cbn [app stages_ok]. split; [|exact I].
      intros it Hin. eapply subset_same; [|apply Hthis; exact Hin]. exact Hc. }
    destruct this_round; [exact Hacc|exact Hfin].
  - cbn [respects] in Hresp. destruct Hresp as [Hs Hr].
    destruct (subset (needs s) cur_prov) eqn:E.
    + apply IH; [exact Hc| |exact Hacc| |].
      * intros x. rewrite flat_map_app, !in_app_iff. cbn [flat_map]. rewrite app_nil_r. specialize (Hn x). tauto.
      * intros it Hin. apply in_app_or in Hin. destruct Hin as [Hin|[<-|[]]]; [apply Hthis; exact Hin|exact E].
      * rewrite app_assoc. exact Hr.
    + apply IH.
      * intros x. rewrite concat_app, flat_map_app, !in_app_iff. cbn [concat flat_map]. rewrite !app_nil_r.
        specialize (Hc x). specialize (Hn x). tauto.
      * intros x. cbn [flat_map]. rewrite app_nil_r. tauto.
      * apply stages_ok_app; [exact Hacc|]. cbn [app stages_ok]. split; [|exact I].
        intros it Hin. eapply subset_same; [|apply Hthis; exact Hin]. exact Hc.
      * intros it [<-|[]]. exact Hs.
      * exact Hr.
Qed.

Corollary assign_stages_sound order : respects [] order -> stages_ok [] (assign_stages order).
Proof.
  intros H. unfold assign_stages. apply stages_sound.
  - intros x; cbn; tauto.
  - intros x; cbn; tauto.
  - exact I.
  - intros it Hin. destruct Hin.
  - exact H.
Qed.

Corollary assign_pipeline items order :
  toposort items = Ok order -> Permutation order items /\ stages_ok [] (assign_stages order).
Proof. intros H. split; [apply toposort_is_permutation; exact H|apply assign_stages_sound, toposort_order_ok with (items := items); exact H]. Qed.
