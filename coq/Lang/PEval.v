(* A model of the partial evaluator behind the REPL, defconst, the cl22 frontend optimiser and the
   unused-argument check (compiler/evaluate.rs shrink_bodyform_visited), over the first-order core of the
   language: constants, program parameters, function parameters, strict primitive operators, the lazy
   conditional, and calls of (possibly recursive) functions.
   - seval: the meaning of an expression (call-by-value, as compiled code behaves); fuel bounds the depth.
   - shrink: the evaluator: known parameters are replaced by their constants, function calls are expanded by
     SUBSTITUTING the (shrunk) argument expressions for the parameters (so an argument that is not used is
     never evaluated: the evaluator may be lazier than compiled code), primitive applications whose operands
     are all constants are folded through the operator oracle, conditionals with a constant condition are
     decided. Running out of fuel is the evaluator's depth limit (VisitedMarker): an error, never a value. *)
From CV Require Import Base.Prelude Base.Val.

Inductive expr :=
| EConst (v : val)
| EVar (n : nat)                       (* a parameter of the program *)
| ELocal (k : nat)                     (* a parameter of the enclosing function *)
| EOp (op : bytes) (args : list expr)  (* strict primitive operator *)
| EIf (c t e : expr)                   (* lazy conditional *)
| ECall (f : nat) (args : list expr).

Fixpoint map_opt {A B} (f : A -> option B) (l : list A) : option (list B) :=
  match l with
  | [] => Some []
  | x :: r => match f x with
              | Some y => match map_opt f r with Some ys => Some (y :: ys) | None => None end
              | None => None
              end
  end.

Definition const_of (e : expr) : option val := match e with EConst v => Some v | _ => None end.

Section PE.
  Variable opf : bytes -> val -> option val.      (* operator oracle (Clvm/Ops.v opf_exec in the extraction) *)
  Variable funs : list expr.                       (* function bodies; their parameters are ELocal 0, 1, ... *)

  Definition truthy (v : val) : bool := negb (nilp v).

  Fixpoint seval (fuel : nat) (rho lv : list val) (e : expr) : option val :=
    match fuel with
    | O => None
    | S f =>
        match e with
        | EConst v => Some v
        | EVar n => nth_error rho n
        | ELocal k => nth_error lv k
        | EOp op args =>
            match map_opt (seval f rho lv) args with
            | Some vs => opf op (of_list vs)
            | None => None
            end
        | EIf c t e' =>
            match seval f rho lv c with
            | Some vc => if truthy vc then seval f rho lv t else seval f rho lv e'
            | None => None
            end
        | ECall g args =>
            match map_opt (seval f rho lv) args, nth_error funs g with
            | Some vs, Some body => seval f rho vs body
            | _, _ => None
            end
        end
    end.

  (* known: what is known about the program's parameters; senv: the expressions substituted for the
     enclosing function's parameters (they mention program parameters only) *)
  Fixpoint shrink (fuel : nat) (known : list (option val)) (senv : list expr) (e : expr) : option expr :=
    match fuel with
    | O => None
    | S f =>
        match e with
        | EConst v => Some (EConst v)
        | EVar n => match nth_error known n with Some (Some v) => Some (EConst v) | _ => Some (EVar n) end
        | ELocal k => nth_error senv k
        | EOp op args =>
            match map_opt (shrink f known senv) args with
            | Some args' =>
                match map_opt const_of args' with
                | Some vs => match opf op (of_list vs) with Some v => Some (EConst v) | None => Some (EOp op args') end
                | None => Some (EOp op args')
                end
            | None => None
            end
        | EIf c t e' =>
            match shrink f known senv c with
            | Some (EConst vc) => if truthy vc then shrink f known senv t else shrink f known senv e'
            | Some c' =>
                match shrink f known senv t, shrink f known senv e' with
                | Some t', Some e'' => Some (EIf c' t' e'')
                | _, _ => None
                end
            | None => None
            end
        | ECall g args =>
            match map_opt (shrink f known senv) args, nth_error funs g with
            | Some args', Some body => shrink f known args' body
            | _, _ => None
            end
        end
    end.

  (* the residue mentions program parameter n / contains a call or a function parameter *)
  Fixpoint mentions (n : nat) (e : expr) : bool :=
    match e with
    | EConst _ => false
    | EVar m => Nat.eqb n m
    | ELocal _ => false
    | EOp _ args => existsb (mentions n) args
    | EIf c t e' => mentions n c || mentions n t || mentions n e'
    | ECall _ args => existsb (mentions n) args
    end.

  Fixpoint plain (e : expr) : bool :=          (* no calls, no function parameters *)
    match e with
    | EConst _ => true
    | EVar _ => true
    | ELocal _ => false
    | EOp _ args => forallb plain args
    | EIf c t e' => plain c && plain t && plain e'
    | ECall _ _ => false
    end.

  (* the unused-argument check: evaluate with nothing known and report the parameters absent from the residue *)
  Definition reported_unused (fuel : nat) (nparams : nat) (body : expr) (n : nat) : bool :=
    match shrink fuel (repeat None nparams) [] body with
    | Some r => negb (mentions n r)
    | None => false
    end.
End PE.
