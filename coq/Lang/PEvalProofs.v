From CV Require Import Base.Prelude Base.Val Lang.PEval.

Lemma map_opt_weaken {A B} (f g : A -> option B) l ys :
  (forall x y, In x l -> f x = Some y -> g x = Some y) -> map_opt f l = Some ys -> map_opt g l = Some ys.
Proof.
  revert ys; induction l as [|x r IH]; intros ys H E; cbn in *; [exact E|].
  destruct (f x) as [y|] eqn:Ex; [|discriminate]. destruct (map_opt f r) as [yr|] eqn:Er; [|discriminate].
  rewrite (H x y (or_introl eq_refl) Ex). rewrite (IH yr); [exact E| |reflexivity].
  intros x' y' Hin. apply H. right. exact Hin.
Qed.

Lemma map_opt_ext {A B} (f g : A -> option B) l :
  (forall x, In x l -> f x = g x) -> map_opt f l = map_opt g l.
Proof.
  induction l as [|x r IH]; intros H; cbn; [reflexivity|].
  rewrite (H x (or_introl eq_refl)). rewrite IH; [reflexivity|]. intros x' Hin. apply H. right. exact Hin.
Qed.

Lemma map_opt_Forall2 {A B} (f : A -> option B) l ys :
  map_opt f l = Some ys -> Forall2 (fun x y => f x = Some y) l ys.
Proof.
  revert ys; induction l as [|x r IH]; intros ys E; cbn in E.
  - inversion E. constructor.
  - destruct (f x) as [y|] eqn:Ex; [|discriminate]. destruct (map_opt f r) as [yr|] eqn:Er; [|discriminate].
    inversion E; subst. constructor; [exact Ex|apply IH; reflexivity].
Qed.

Section Proofs.
  Variable opf : bytes -> val -> option val.
  Variable funs : list expr.
  Notation seval := (seval opf funs).
  Notation shrink := (shrink opf funs).

  Lemma seval_mono : forall f f' rho lv e v, (f <= f')%nat -> seval f rho lv e = Some v -> seval f' rho lv e = Some v.
  Proof.
    induction f as [|f IH]; intros f' rho lv e v Hle H; [discriminate|].
    destruct f' as [|f']; [lia|]. assert (Hle' : (f <= f')%nat) by lia.
    destruct e as [c|n|k|op args|c t e'|g args]; cbn [PEval.seval] in *; try exact H.
    - destruct (map_opt (seval f rho lv) args) as [vs|] eqn:E; [|discriminate].
      rewrite (map_opt_weaken _ (seval f' rho lv) _ _ (fun x y _ Hx => IH f' rho lv x y Hle' Hx) E). exact H.
    - destruct (seval f rho lv c) as [vc|] eqn:Ec; [|discriminate].
      rewrite (IH f' _ _ _ _ Hle' Ec). destruct (truthy vc); apply (IH f'); assumption.
    - destruct (map_opt (seval f rho lv) args) as [vs|] eqn:E; [|discriminate].
      rewrite (map_opt_weaken _ (seval f' rho lv) _ _ (fun x y _ Hx => IH f' rho lv x y Hle' Hx) E).
      destruct (nth_error funs g) as [body|]; [|discriminate]. apply (IH f'); assumption.
  Qed.

  Definition consistent (known : list (option val)) (rho : list val) : Prop :=
    forall n v, nth_error known n = Some (Some v) -> nth_error rho n = Some v.

  Definition senv_ok (rho : list val) (senv : list expr) (lv : list val) : Prop :=
    Forall2 (fun e v => exists F, seval F rho [] e = Some v) senv lv.

  Lemma const_vals rho : forall args cs vs F,
    map_opt const_of args = Some cs -> map_opt (seval F rho []) args = Some vs -> cs = vs.
  Proof.
    induction args as [|a r IH]; intros cs vs F Hc Hv; cbn in *.
    - congruence.
    - destruct (const_of a) as [c|] eqn:Ea; [|discriminate]. destruct (map_opt const_of r) as [cr|] eqn:Er; [|discriminate].
      destruct (seval F rho [] a) as [v|] eqn:Eva; [|discriminate]. destruct (map_opt (seval F rho []) r) as [vr|] eqn:Evr; [|discriminate].
      inversion Hc; inversion Hv; subst. f_equal; [|eapply IH; eauto].
      destruct a; try discriminate. cbn in Ea. inversion Ea; subst. destruct F; cbn in Eva; congruence.
  Qed.

  Lemma nth_error_Forall2 {A B} (R : A -> B -> Prop) l1 l2 k b :
    Forall2 R l1 l2 -> nth_error l2 k = Some b -> exists a, nth_error l1 k = Some a /\ R a b.
  Proof.
    intros H; revert k; induction H as [|x y r1 r2 Hxy Hr IH]; intros [|k] E; cbn in *; try discriminate.
    - inversion E; subst. exists x. split; [reflexivity|exact Hxy].
    - apply IH. exact E.
  Qed.

  (* soundness of the evaluator: whenever the expression has a value, the residue has that value *)
  Theorem shrink_sound : forall fs known rho, consistent known rho ->
    forall senv e e' lv fv v,
    senv_ok rho senv lv -> shrink fs known senv e = Some e' -> seval fv rho lv e = Some v ->
    exists F, seval F rho [] e' = Some v.
  Proof.
    induction fs as [|fs IH]; intros known rho Hk senv e e' lv fv v Hs Hsh Hev; [discriminate|].
    destruct fv as [|fv]; [discriminate|].
    (* the argument-list form of the induction hypothesis *)
    assert (Hargs : forall args args' vs, map_opt (shrink fs known senv) args = Some args' ->
              map_opt (seval fv rho lv) args = Some vs -> exists F, map_opt (seval F rho []) args' = Some vs).
    { induction args as [|a r IHr]; intros args' vs Ha Hv; cbn in *.
      - inversion Ha; inversion Hv; subst. exists 0%nat. reflexivity.
      - destruct (shrink fs known senv a) as [a'|] eqn:Ea; [|discriminate].
        destruct (map_opt (shrink fs known senv) r) as [r'|] eqn:Er; [|discriminate].
        destruct (seval fv rho lv a) as [va|] eqn:Eva; [|discriminate].
        destruct (map_opt (seval fv rho lv) r) as [vr|] eqn:Evr; [|discriminate].
        inversion Ha; inversion Hv; subst.
        destruct (IH known rho Hk senv a a' lv fv va Hs Ea Eva) as [F1 H1].
        destruct (IHr r' vr eq_refl eq_refl) as [F2 H2].
        exists (Nat.max F1 F2). cbn.
        rewrite (seval_mono F1 (Nat.max F1 F2) _ _ _ _ (Nat.le_max_l _ _) H1).
        rewrite (map_opt_weaken _ (seval (Nat.max F1 F2) rho []) _ _ (fun x y _ Hx => seval_mono F2 _ rho [] x y (Nat.le_max_r _ _) Hx) H2).
        reflexivity. }
    destruct e as [c|n|k|op args|c t e2|g args]; cbn [PEval.shrink PEval.seval] in Hsh, Hev.
    - inversion Hsh; inversion Hev; subst. exists 1%nat. reflexivity.
    - destruct (nth_error known n) as [[kv|]|] eqn:En.
      + inversion Hsh; subst. rewrite (Hk n kv En) in Hev. inversion Hev; subst. exists 1%nat. reflexivity.
      + inversion Hsh; subst. exists 1%nat. exact Hev.
      + inversion Hsh; subst. exists 1%nat. exact Hev.
    - destruct (nth_error_Forall2 _ _ _ _ _ Hs Hev) as (a & Ha & F & HF). rewrite Ha in Hsh. inversion Hsh; subst. exists F. exact HF.
    - destruct (map_opt (shrink fs known senv) args) as [args'|] eqn:Ea; [|discriminate].
      destruct (map_opt (seval fv rho lv) args) as [vs|] eqn:Ev; [|discriminate].
      destruct (Hargs args args' vs Ea Ev) as [F HF].
      assert (Hres : exists F', seval F' rho [] (EOp op args') = Some v).
      { exists (S F). cbn. rewrite HF. exact Hev. }
      destruct (map_opt const_of args') as [cs|] eqn:Ec; [|inversion Hsh; subst; exact Hres].
      rewrite (const_vals rho args' cs vs F Ec HF) in Hsh. rewrite Hev in Hsh. inversion Hsh; subst. exists 1%nat. reflexivity.
    - destruct (seval fv rho lv c) as [vc|] eqn:Evc; [|discriminate].
      destruct (shrink fs known senv c) as [c'|] eqn:Ec; [|discriminate].
      destruct (IH known rho Hk senv c c' lv fv vc Hs Ec Evc) as [F1 H1].
      assert (Hbranch : forall b b', shrink fs known senv b = Some b' -> seval fv rho lv b = Some v -> exists F, seval F rho [] b' = Some v).
      { intros b b' Hb Hvb. exact (IH known rho Hk senv b b' lv fv v Hs Hb Hvb). }
      assert (Hresid : forall t' e2', shrink fs known senv t = Some t' -> shrink fs known senv e2 = Some e2' ->
                 exists F, seval F rho [] (EIf c' t' e2') = Some v).
      { intros t' e2' Ht He. destruct (truthy vc) eqn:Etr.
        - destruct (Hbranch t t' Ht Hev) as [F2 H2]. exists (S (Nat.max F1 F2)). cbn.
          rewrite (seval_mono F1 _ _ _ _ _ (Nat.le_max_l _ _) H1). rewrite Etr. apply (seval_mono F2); [apply Nat.le_max_r|exact H2].
        - destruct (Hbranch e2 e2' He Hev) as [F2 H2]. exists (S (Nat.max F1 F2)). cbn.
          rewrite (seval_mono F1 _ _ _ _ _ (Nat.le_max_l _ _) H1). rewrite Etr. apply (seval_mono F2); [apply Nat.le_max_r|exact H2]. }
      destruct c' as [cv|cn|ck|cop cargs|cc ct ce|cg cargs];
        try (destruct (shrink fs known senv t) as [t'|] eqn:Et; [|discriminate];
             destruct (shrink fs known senv e2) as [e2'|] eqn:Ee; [|discriminate];
             inversion Hsh; subst; apply Hresid; reflexivity).
      destruct F1 as [|F1]; [discriminate|]. cbn in H1. inversion H1; subst.
      destruct (truthy vc); eapply Hbranch; eassumption.
    - destruct (map_opt (shrink fs known senv) args) as [args'|] eqn:Ea; [|discriminate].
      destruct (map_opt (seval fv rho lv) args) as [vs|] eqn:Ev; [|discriminate].
      destruct (nth_error funs g) as [body|] eqn:Eg; [|discriminate].
      destruct (Hargs args args' vs Ea Ev) as [F HF].
      apply (IH known rho Hk args' body e' vs fv v); [|exact Hsh|exact Hev].
      apply map_opt_Forall2 in HF. unfold senv_ok. clear -HF.
      induction HF as [|x y r1 r2 Hxy Hr IHr]; constructor; [exists F; exact Hxy|exact IHr].
  Qed.

  (* closed expressions: a constant returned by the evaluator is the program's value *)
  Corollary shrink_constant_is_value fs known rho e c fv v :
    consistent known rho -> shrink fs known [] e = Some (EConst c) -> seval fv rho [] e = Some v -> c = v.
  Proof.
    intros Hk Hs Hv. destruct (shrink_sound fs known rho Hk [] e (EConst c) [] fv v (Forall2_nil _) Hs Hv) as [F HF].
    destruct F; cbn in HF; congruence.
  Qed.

  (* the residue contains no calls and no function parameters *)
  Lemma forallb_map_opt {A} (p : A -> bool) (f : A -> option A) l l' :
    (forall x y, In x l -> f x = Some y -> p y = true) -> map_opt f l = Some l' -> forallb p l' = true.
  Proof.
    revert l'; induction l as [|x r IH]; intros l' H E; cbn in E.
    - inversion E. reflexivity.
    - destruct (f x) as [y|] eqn:Ex; [|discriminate]. destruct (map_opt f r) as [yr|] eqn:Er; [|discriminate].
      inversion E; subst. cbn. rewrite (H x y (or_introl eq_refl) Ex). cbn. apply IH; [|reflexivity].
      intros x' y' Hin. apply H. right. exact Hin.
  Qed.

  Lemma plain_if c t e : plain c = true -> plain t = true -> plain e = true -> plain (EIf c t e) = true.
  Proof. intros H1 H2 H3. cbn [plain]. rewrite H1, H2, H3. reflexivity. Qed.

  Theorem shrink_plain : forall fs known senv e e', forallb plain senv = true -> shrink fs known senv e = Some e' -> plain e' = true.
  Proof.
    induction fs as [|fs IH]; intros known senv e e' Hs H; [discriminate|].
    destruct e as [c|n|k|op args|c t e2|g args]; cbn [PEval.shrink] in H.
    - inversion H; reflexivity.
    - destruct (nth_error known n) as [[kv|]|]; inversion H; reflexivity.
    - rewrite forallb_forall in Hs. apply Hs. eapply nth_error_In. exact H.
    - destruct (map_opt (shrink fs known senv) args) as [args'|] eqn:Ea; [|discriminate].
      assert (Hp : forallb plain args' = true).
      { eapply forallb_map_opt; [|exact Ea]. intros x y _ Hx. eapply IH; eassumption. }
      destruct (map_opt const_of args') as [cs|]; [destruct (opf op (of_list cs))|]; inversion H; subst; cbn; auto.
    - destruct (shrink fs known senv c) as [c'|] eqn:Ec; [|discriminate].
      assert (Hc : plain c' = true) by (eapply IH; eassumption).
      destruct c' as [cv|cn|ck|cop cargs|cc ct ce|cg cargs];
        try (destruct (shrink fs known senv t) as [t'|] eqn:Et; [|discriminate];
             destruct (shrink fs known senv e2) as [e2'|] eqn:Ee; [|discriminate];
             inversion H; subst; apply plain_if; [exact Hc|exact (IH _ _ _ _ Hs Et)|exact (IH _ _ _ _ Hs Ee)]).
      destruct (truthy cv); eapply IH; eassumption.
    - destruct (map_opt (shrink fs known senv) args) as [args'|] eqn:Ea; [|discriminate].
      destruct (nth_error funs g) as [body|]; [|discriminate].
      eapply IH; [|exact H]. eapply forallb_map_opt; [|exact Ea]. intros x y _ Hx. eapply IH; eassumption.
  Qed.

  Definition agree_except (n : nat) (rho rho' : list val) : Prop := forall m, m <> n -> nth_error rho m = nth_error rho' m.

  (* a plain expression that does not mention parameter n has the same meaning whatever that parameter is *)
  Theorem plain_independent : forall F n rho rho' lv e, agree_except n rho rho' ->
    plain e = true -> mentions n e = false -> seval F rho lv e = seval F rho' lv e.
  Proof.
    induction F as [|F IH]; intros n rho rho' lv e Ha Hp Hm; [reflexivity|].
    destruct e as [c|m|k|op args|c t e2|g args]; cbn [PEval.seval plain mentions] in *; try reflexivity; try discriminate.
    - apply Ha. intros ->. rewrite Nat.eqb_refl in Hm. discriminate.
    - rewrite (map_opt_ext (seval F rho lv) (seval F rho' lv) args); [reflexivity|].
      intros x Hin. apply (IH n); [exact Ha| |].
      + rewrite forallb_forall in Hp. apply Hp. exact Hin.
      + destruct (mentions n x) eqn:E; [|reflexivity]. assert (existsb (mentions n) args = true) by (apply existsb_exists; exists x; auto). congruence.
    - apply andb_true_iff in Hp. destruct Hp as [Hp He2]. apply andb_true_iff in Hp. destruct Hp as [Hc Ht].
      apply orb_false_iff in Hm. destruct Hm as [Hm Hme]. apply orb_false_iff in Hm. destruct Hm as [Hmc Hmt].
      rewrite (IH n rho rho' lv c Ha Hc Hmc). destruct (seval F rho' lv c) as [vc|]; [|reflexivity].
      destruct (truthy vc); apply (IH n); assumption.
  Qed.

  Lemma consistent_unknown np rho : consistent (repeat None np) rho.
  Proof.
    intros n v H. exfalso. revert n H. induction np as [|np IH]; intros [|n] H; cbn in H; try discriminate. eapply IH. exact H.
  Qed.

  (* the unused-argument check (model): a parameter reported unused cannot change a returned value *)
  Theorem unused_noninterference fs np body n rho rho' f f' v v' :
    reported_unused opf funs fs np body n = true -> agree_except n rho rho' ->
    seval f rho [] body = Some v -> seval f' rho' [] body = Some v' -> v = v'.
  Proof.
    unfold reported_unused. intros Hr Ha Hv Hv'.
    destruct (PEval.shrink opf funs fs (repeat None np) [] body) as [r|] eqn:Es; [|discriminate].
    apply negb_true_iff in Hr.
    destruct (shrink_sound fs _ rho (consistent_unknown np rho) [] body r [] f v (Forall2_nil _) Es Hv) as [F1 H1].
    destruct (shrink_sound fs _ rho' (consistent_unknown np rho') [] body r [] f' v' (Forall2_nil _) Es Hv') as [F2 H2].
    assert (Hp : plain r = true) by (eapply shrink_plain; [|exact Es]; reflexivity).
    rewrite <- (plain_independent F2 n rho rho' [] r Ha Hp Hr) in H2.
    pose proof (seval_mono F1 (Nat.max F1 F2) rho [] r v (Nat.le_max_l _ _) H1) as A.
    pose proof (seval_mono F2 (Nat.max F1 F2) rho [] r v' (Nat.le_max_r _ _) H2) as B.
    congruence.
  Qed.
End Proofs.
