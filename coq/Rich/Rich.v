(* compiler/sexp.rs SExp ("rich" values), compiler/clvm.rs convert_to_clvm_rs / convert_from_clvm_rs
   in both integer modes, sha256tree (modern, classic), SExp::nilp / equal_to / Hash, printable. *)
From CV Require Import Base.Prelude Base.Val Base.Bytes.

Inductive rich :=
| RNil
| RCons (a b : rich)
| RInt (z : Z)
| RQuoted (q : N) (b : bytes)
| RAtom (b : bytes).

(* util::u8_from_number = BigInt::to_signed_bytes_be ; number_from_u8 = from_signed_bytes_be ([] -> 0) *)
Definition u8_from_number (z : Z) : bytes := signed_bytes_be z.
Definition number_from_u8 (b : bytes) : Z := be_signed b.

(* sexp.rs printable(a, quoted) *)
Definition printable_char (quoted : bool) (ch : N) : bool :=
  negb ((ch <? 32) || (126 <? ch)
        || (negb quoted && ((ch =? 32) || (ch =? 39)))   (* ascii whitespace >= 32 is ' ' only; '\'' *)
        || (ch =? 34) || (ch =? 92)).
Definition printable (a : bytes) (quoted : bool) : bool := forallb (printable_char quoted) a.

(* mode = NewStyleIntConversion::setting() *)
Fixpoint to_clvm (mode : bool) (r : rich) : val :=
  match r with
  | RNil => Atom []
  | RAtom x => Atom x
  | RQuoted _ x => Atom x
  | RInt i => if mode && Z.eqb i 0 then Atom [] else Atom (u8_from_number i)
  | RCons a b => Cons (to_clvm mode a) (to_clvm mode b)
  end.

Definition from_clvm_atom (mode : bool) (data : bytes) : rich :=
  match data with
  | [] => RNil
  | _ =>
      let integer := number_from_u8 data in
      if bytes_eqb (u8_from_number integer) data then
        (if mode && bytes_eqb data [0] then RQuoted 120 data else RInt integer)
      else if mode && negb (printable data true) then RQuoted 120 data
      else RAtom data
  end.

Fixpoint from_clvm (mode : bool) (v : val) : rich :=
  match v with
  | Atom data => from_clvm_atom mode data
  | Cons a b => RCons (from_clvm mode a) (from_clvm mode b)
  end.

(* tree hashes as expressions over an abstract SHA-256: H1 b = sha256(0x01 ++ b), H2 l r = sha256(0x02 ++ l ++ r) *)
Inductive hexp := H1 (b : bytes) | H2 (l r : hexp).

Fixpoint treehash (v : val) : hexp :=
  match v with Atom b => H1 b | Cons a d => H2 (treehash a) (treehash d) end.

(* classic/clvm_tools/sha256tree.rs *)
Fixpoint sha256tree_classic (v : val) : hexp :=
  match v with Cons l r => H2 (sha256tree_classic l) (sha256tree_classic r) | Atom a => H1 a end.

(* compiler/clvm.rs sha256tree *)
Fixpoint sha256tree_rich (mode : bool) (r : rich) : hexp :=
  match r with
  | RCons a b => H2 (sha256tree_rich mode a) (sha256tree_rich mode b)
  | RNil => H1 []
  | RInt i => if mode && Z.eqb i 0 then H1 [] else H1 (u8_from_number i)
  | RQuoted _ v => H1 v
  | RAtom v => H1 v
  end.

(* SExp::nilp *)
Definition rnilp (r : rich) : bool :=
  match r with
  | RNil => true
  | RQuoted _ [] => true
  | RInt z => Z.eqb z 0
  | RAtom [] => true
  | _ => false
  end.

(* the bytes a non-cons value is compared by *)
Definition leaf_bytes (r : rich) : option bytes :=
  match r with
  | RNil => Some []
  | RInt i => Some (u8_from_number i)
  | RQuoted _ x => Some x
  | RAtom x => Some x
  | RCons _ _ => None
  end.

(* SExp::equal_to (== PartialEq). The source recurses through freshly built Atom values; unrolled:
   after the two nil tests, cons/cons recurses, cons/leaf is false, leaf/leaf compares leaf_bytes. *)
Fixpoint equal_to (a b : rich) : bool :=
  if rnilp a && rnilp b then true
  else if rnilp a || rnilp b then false
  else
    match a, b with
    | RCons r s, RCons t u => equal_to r t && equal_to s u
    | RCons _ _, _ => false
    | _, RCons _ _ => false
    | _, _ => match leaf_bytes a, leaf_bytes b with
              | Some x, Some y => bytes_eqb x y
              | _, _ => false
              end
    end.

(* impl Hash for SExp: the sequence of byte vectors fed to the hasher (each Vec<u8> hashes its length and bytes) *)
Fixpoint hash_stream (r : rich) : list bytes :=
  match r with
  | RNil => [[]]
  | RCons a b => hash_stream a ++ hash_stream b
  | RAtom a => [a]
  | RQuoted _ a => [a]
  | RInt i => [u8_from_number i]
  end.

Fixpoint no_int0 (r : rich) : bool :=
  match r with
  | RInt z => negb (Z.eqb z 0)
  | RCons a b => no_int0 a && no_int0 b
  | _ => true
  end.
