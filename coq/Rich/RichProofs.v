From CV Require Import Base.Prelude Base.Val Base.Bytes Rich.Rich.

Lemma u8_zero : u8_from_number 0 = [0].
Proof. reflexivity. Qed.

Lemma to_from_atom mode data : to_clvm mode (from_clvm_atom mode data) = Atom data.
Proof.
  unfold from_clvm_atom. destruct data as [|x r]; [reflexivity|].
  destruct (bytes_eqb (u8_from_number (number_from_u8 (x :: r))) (x :: r)) eqn:E.
  - apply bytes_eqb_eq in E.
    destruct (mode && bytes_eqb (x :: r) [0]) eqn:M; [reflexivity|].
    cbn [to_clvm]. destruct (mode && Z.eqb (number_from_u8 (x :: r)) 0) eqn:Z0.
    + (* integer 0 in the fixed mode: then the atom is [0] and the quoted branch was taken *)
      apply andb_true_iff in Z0. destruct Z0 as [Hm Hz]. apply Z.eqb_eq in Hz.
      rewrite Hz, u8_zero in E. rewrite <- E in M. rewrite Hm in M. cbn in M. discriminate.
    + rewrite E. reflexivity.
  - destruct (mode && negb (printable (x :: r) true)); reflexivity.
Qed.

Theorem to_from mode v : to_clvm mode (from_clvm mode v) = v.
Proof.
  induction v as [b|a IHa d IHd]; cbn [from_clvm to_clvm].
  - apply to_from_atom.
  - rewrite IHa, IHd. reflexivity.
Qed.

Theorem hash_to mode r : sha256tree_rich mode r = treehash (to_clvm mode r).
Proof.
  induction r as [|a IHa b IHb|z|q b|b]; cbn [sha256tree_rich to_clvm treehash]; try reflexivity.
  - rewrite IHa, IHb. reflexivity.
  - destruct (mode && Z.eqb z 0); reflexivity.
Qed.

Theorem hash_rich mode v : sha256tree_rich mode (from_clvm mode v) = treehash v.
Proof. rewrite hash_to, to_from. reflexivity. Qed.

Theorem hash_classic v : sha256tree_classic v = treehash v.
Proof. induction v as [b|a IHa d IHd]; cbn; [reflexivity|]. rewrite IHa, IHd. reflexivity. Qed.

(* ---- equality in the fixed mode ---- *)
Lemma signed_bytes_nonempty z : signed_bytes_be z <> [].
Proof.
  destruct z as [|p|p]; cbn [signed_bytes_be]; try discriminate.
  - destruct (be_digits (N.pos p)) as [|x r]; [discriminate|]. destruct (128 <=? x); discriminate.
  - set (k0 := N.to_nat ((N.size (N.pos p - 1) + 8) / 8)).
    set (k := if (k0 =? 0)%nat then 1%nat else k0).
    assert (Hk : (1 <= k)%nat) by (subst k; destruct (Nat.eqb_spec k0 0); lia).
    intros H. apply (f_equal (@length N)) in H. rewrite app_length, repeat_length in H. cbn in H. lia.
Qed.

Lemma rnilp_iff r : rnilp r = true <-> to_clvm true r = Atom [].
Proof.
  destruct r as [|a b|z|q b|b]; cbn [rnilp to_clvm andb].
  - tauto.
  - split; discriminate.
  - destruct (Z.eqb z 0) eqn:E; [tauto|]. split; [discriminate|].
    intros H. inversion H as [H1]. exfalso. exact (signed_bytes_nonempty z H1).
  - destruct b; [tauto|]. split; discriminate.
  - destruct b; [tauto|]. split; discriminate.
Qed.

Lemma leaf_to_clvm r x : leaf_bytes r = Some x -> rnilp r = false -> to_clvm true r = Atom x.
Proof.
  destruct r as [|a b|z|q b|b]; cbn [leaf_bytes rnilp to_clvm andb]; try discriminate.
  - intros H Hn. rewrite Hn. inversion H. reflexivity.
  - intros H _. inversion H. reflexivity.
  - intros H _. inversion H. reflexivity.
Qed.

Lemma nonnil_not_atom_nil r : rnilp r = false -> to_clvm true r <> Atom [].
Proof. intros H E. apply rnilp_iff in E. congruence. Qed.

Lemma leaf_case a b x y :
  leaf_bytes a = Some x -> leaf_bytes b = Some y -> rnilp a = false -> rnilp b = false ->
  (bytes_eqb x y = true <-> to_clvm true a = to_clvm true b).
Proof.
  intros La Lb Na Nb. rewrite (leaf_to_clvm a x La Na), (leaf_to_clvm b y Lb Nb).
  rewrite bytes_eqb_eq. split; [intros ->; reflexivity | intros E; inversion E; reflexivity].
Qed.

Theorem eq_iff_bytes : forall a b, equal_to a b = true <-> to_clvm true a = to_clvm true b.
Proof.
  induction a as [|a1 IH1 a2 IH2|z|q x|x]; intros b.
  all: destruct b as [|b1 b2|z'|q' y|y].
  all: cbn [equal_to].
  all: match goal with |- context [rnilp ?u && rnilp ?v] =>
         destruct (rnilp u) eqn:Nu; destruct (rnilp v) eqn:Nv; cbn [andb orb] end.
  (* both nil *)
  all: try (match goal with Hu : rnilp ?u = true, Hv : rnilp ?v = true |- _ =>
              apply rnilp_iff in Hu; apply rnilp_iff in Hv; rewrite Hu, Hv; tauto end).
  (* exactly one nil *)
  all: try (match goal with Hu : rnilp ?u = true, Hv : rnilp ?v = false |- _ =>
              apply rnilp_iff in Hu; apply nonnil_not_atom_nil in Hv; rewrite Hu;
              split; [discriminate | intros E; symmetry in E; contradiction] end).
  all: try (match goal with Hu : rnilp ?u = false, Hv : rnilp ?v = true |- _ =>
              apply rnilp_iff in Hv; apply nonnil_not_atom_nil in Hu; rewrite Hv;
              split; [discriminate | intros E; contradiction] end).
  (* neither nil *)
  all: try (cbn in Nu; discriminate).
  all: try (cbn in Nv; discriminate).
  (* cons / cons *)
  all: try (rewrite andb_true_iff, IH1, IH2; cbn [to_clvm]; split;
            [intros [-> ->]; reflexivity | intros E; inversion E; auto]).
  (* cons / leaf *)
  all: try (split; [discriminate | cbn [to_clvm]; destruct (true && Z.eqb _ 0); discriminate]).
  (* leaf / leaf *)
  all: try (cbn [leaf_bytes]; eapply leaf_case; try reflexivity; assumption).
  all: try tauto.
  all: split; [discriminate | cbn [to_clvm]; discriminate].
Qed.

Lemma to_clvm_hash_stream : forall a b, no_int0 a = true -> no_int0 b = true ->
  to_clvm true a = to_clvm true b -> hash_stream a = hash_stream b.
Proof.
  assert (L : forall r, no_int0 r = true -> forall x, to_clvm true r = Atom x -> hash_stream r = [x]).
  { intros r Hn x. destruct r as [|a b|z|q y|y]; cbn [to_clvm hash_stream no_int0] in *; try discriminate.
    - intros E; inversion E; reflexivity.
    - apply negb_true_iff in Hn. rewrite Hn. cbn [andb]. intros E; inversion E; reflexivity.
    - intros E; inversion E; reflexivity.
    - intros E; inversion E; reflexivity. }
  induction a as [|a1 IH1 a2 IH2|z|q x|x]; intros b Ha Hb E.
  2:{ destruct b as [|b1 b2|z'|q' y|y]; cbn [to_clvm] in E; try discriminate.
      - cbn [no_int0] in Ha, Hb. apply andb_true_iff in Ha, Hb. destruct Ha, Hb.
        inversion E. cbn [hash_stream]. f_equal; [apply IH1|apply IH2]; assumption.
      - destruct (true && Z.eqb z' 0); discriminate. }
  all: match goal with |- hash_stream ?r = _ =>
         assert (exists x, to_clvm true r = Atom x) as [x0 Hx]
           by (cbn [to_clvm]; try destruct (true && Z.eqb _ 0); eexists; reflexivity) end.
  all: rewrite (L _ Ha _ Hx); rewrite Hx in E; symmetry in E; rewrite (L _ Hb _ E); reflexivity.
Qed.

Lemma from_clvm_no_int0 v : no_int0 (from_clvm true v) = true.
Proof.
  induction v as [b|a IHa d IHd]; cbn [from_clvm no_int0]; [|rewrite IHa, IHd; reflexivity].
  unfold from_clvm_atom. destruct b as [|x r]; [reflexivity|].
  destruct (bytes_eqb _ (x :: r)) eqn:E.
  - cbn [andb]. destruct (bytes_eqb (x :: r) [0]) eqn:E0; [reflexivity|].
    cbn [no_int0]. apply negb_true_iff. apply Z.eqb_neq. intros Hz.
    rewrite Hz, u8_zero in E. apply bytes_eqb_eq in E. rewrite <- E in E0. discriminate.
  - cbn [andb]. destruct (negb (printable (x :: r) true)); reflexivity.
Qed.
