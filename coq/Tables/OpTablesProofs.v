(* Lifting of the finite table checks to statements over all names / atoms. *)
From CV Require Import Base.Prelude Gen.OpTables Tables.OpTablesModel.

Lemma assoc_last_in {V} (l : list (bytes * V)) k v :
  assoc_last bytes_eqb l k = Some v -> In (k, v) l.
Proof.
  induction l as [|[k' v'] r IH]; cbn; [discriminate|].
  destruct (assoc_last bytes_eqb r k) as [v''|] eqn:E.
  - intros H; inversion H; subst. right. apply IH. reflexivity.
  - destruct (bytes_eqb k' k) eqn:Ek; [|discriminate].
    intros H; inversion H; subst. apply bytes_eqb_eq in Ek. subst. left. reflexivity.
Qed.

Lemma forallb_In {A} (f : A -> bool) l x : forallb f l = true -> In x l -> f x = true.
Proof. intros H Hin. rewrite forallb_forall in H. apply H. exact Hin. Qed.

Lemma from_atom_in ver a n : keyword_from_atom ver a = Some n ->
  exists fr, from_atom_rows ver = Some fr /\ In (a, n) fr.
Proof.
  unfold keyword_from_atom. destruct (from_atom_rows ver) as [fr|]; [|discriminate].
  intros H. exists fr. split; [reflexivity|]. apply assoc_last_in. exact H.
Qed.

Lemma to_atom_in ver n a : keyword_to_atom ver n = Some a ->
  exists tr, to_atom_rows ver = Some tr /\ In (n, a) tr.
Proof.
  unfold keyword_to_atom. destruct (to_atom_rows ver) as [tr|]; [|discriminate].
  intros H. exists tr. split; [reflexivity|]. apply assoc_last_in. exact H.
Qed.

Lemma inverse_lift ver : check_inverse_version ver = true ->
  forall a n, keyword_from_atom ver a = Some n <-> keyword_to_atom ver n = Some a.
Proof.
  unfold check_inverse_version. intros H a n.
  destruct (from_atom_rows ver) as [fr|] eqn:Ef; [|discriminate].
  destruct (to_atom_rows ver) as [tr|] eqn:Et; [|discriminate].
  apply andb_true_iff in H. destruct H as [H1 H2]. split; intros E.
  - destruct (from_atom_in _ _ _ E) as [fr' [Ef' Hin]]. rewrite Ef in Ef'. inversion Ef'; subst fr'.
    pose proof (forallb_In _ _ _ H1 Hin) as C. cbv beta iota in C. rewrite E in C.
    destruct (keyword_to_atom ver n) as [a'|]; [|discriminate]. apply bytes_eqb_eq in C. congruence.
  - destruct (to_atom_in _ _ _ E) as [tr' [Et' Hin]]. rewrite Et in Et'. inversion Et'; subst tr'.
    pose proof (forallb_In _ _ _ H2 Hin) as C. cbv beta iota in C. rewrite E in C.
    destruct (keyword_from_atom ver a) as [n'|]; [|discriminate]. apply bytes_eqb_eq in C. congruence.
Qed.

Lemma monotone_lift v w : check_monotone v w = true ->
  (forall a n, keyword_from_atom v a = Some n -> keyword_from_atom w a = Some n) /\
  (forall n a, keyword_to_atom v n = Some a -> keyword_to_atom w n = Some a).
Proof.
  unfold check_monotone. intros H.
  destruct (from_atom_rows v) as [fr|] eqn:Ef; [|discriminate].
  destruct (to_atom_rows v) as [tr|] eqn:Et; [|discriminate].
  apply andb_true_iff in H. destruct H as [H1 H2]. split.
  - intros a n E. destruct (from_atom_in _ _ _ E) as [fr' [Ef' Hin]]. rewrite Ef in Ef'. inversion Ef'; subst fr'.
    pose proof (forallb_In _ _ _ H1 Hin) as C. cbv beta iota in C. rewrite E in C.
    destruct (keyword_from_atom w a) as [y|]; [|discriminate]. apply bytes_eqb_eq in C. congruence.
  - intros n a E. destruct (to_atom_in _ _ _ E) as [tr' [Et' Hin]]. rewrite Et in Et'. inversion Et'; subst tr'.
    pose proof (forallb_In _ _ _ H2 Hin) as C. cbv beta iota in C. rewrite E in C.
    destruct (keyword_to_atom w n) as [y|]; [|discriminate]. apply bytes_eqb_eq in C. congruence.
Qed.

Lemma implemented_lift ver : check_implemented ver = true ->
  forall a n, keyword_from_atom ver a = Some n ->
    opcode_canonical a = true /\ implemented ver (be_val a) = true.
Proof.
  unfold check_implemented. intros H a n E.
  destruct (from_atom_in _ _ _ E) as [fr [Ef Hin]]. rewrite Ef in H.
  pose proof (forallb_In _ _ _ H Hin) as C. cbv beta iota in C. apply andb_true_iff in C. exact C.
Qed.

Lemma classic_to_modern_lift : check_classic_to_modern = true ->
  forall v n ver, In (v, n, ver) kw_pairs -> prim_lookup n = Some (Z.of_N (be_val v)).
Proof.
  unfold check_classic_to_modern. intros H v n ver Hin.
  pose proof (forallb_In _ _ _ H Hin) as C. cbv beta iota in C.
  destruct (prim_lookup n) as [z|]; [|discriminate]. apply Z.eqb_eq in C. congruence.
Qed.

Lemma modern_to_classic_lift : check_modern_to_classic = true ->
  forall n z, prim_lookup n = Some z ->
    exists v, keyword_to_atom operators_latest_version n = Some v /\ z = Z.of_N (be_val v).
Proof.
  unfold check_modern_to_classic. intros H n z E.
  apply assoc_last_in in E.
  pose proof (forallb_In _ _ _ H E) as C. cbv beta iota in C.
  destruct (keyword_to_atom operators_latest_version n) as [v|]; [|discriminate].
  exists v. split; [reflexivity|]. apply Z.eqb_eq in C. exact C.
Qed.
