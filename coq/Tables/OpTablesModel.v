(* Model of how the tools derive their operator tables from the generated data
   (classic/clvm/mod.rs lazy_static tables + dispatch, compiler/prims.rs prim_map,
   stage_0.rs runner dispatch). Everything here is executable; the data comes from
   Gen/OpTables.v which the translator regenerates from /repo on every run. *)
From CV Require Import Base.Prelude Gen.OpTables.

Definition row := (bytes * bytes * N)%type.   (* opcode bytes, name, version *)

(* big-endian unsigned value of an opcode atom *)
Fixpoint be_val_acc (acc : N) (b : bytes) : N :=
  match b with [] => acc | x :: r => be_val_acc (acc * 256 + x) r end.
Definition be_val (b : bytes) : N := be_val_acc 0 b.

Definition find_table_def (from : bool) (idx : N) : option (cmp_kind * N) :=
  match filter (fun '(f, i, _, _) => Bool.eqb f from && (i =? idx)) kw_table_defs with
  | (_, _, c, b) :: _ => Some (c, b)
  | [] => None
  end.

Fixpoint dispatch (d : list (option N * N)) (version : N) : option N :=
  match d with
  | [] => None
  | (None, k) :: _ => Some k
  | (Some v, k) :: r => if v =? version then Some k else dispatch r version
  end.

Definition rows_of (c : cmp_kind) (b : N) : list row :=
  filter (fun '(_, _, ver) => cmp_eval c ver b) kw_pairs.

(* keyword_from_atom(version) as an association list with HashMap insert semantics *)
Definition from_atom_rows (version : N) : option (list (bytes * bytes)) :=
  match dispatch from_atom_dispatch version with
  | None => None
  | Some k => match find_table_def true k with
              | None => None
              | Some (c, b) => Some (map (fun '(v, n, _) => (v, n)) (rows_of c b))
              end
  end.
Definition to_atom_rows (version : N) : option (list (bytes * bytes)) :=
  match dispatch to_atom_dispatch version with
  | None => None
  | Some k => match find_table_def false k with
              | None => None
              | Some (c, b) => Some (map (fun '(v, n, _) => (n, v)) (rows_of c b))
              end
  end.

Definition keyword_from_atom (version : N) (a : bytes) : option bytes :=
  match from_atom_rows version with Some l => assoc_last bytes_eqb l a | None => None end.
Definition keyword_to_atom (version : N) (n : bytes) : option bytes :=
  match to_atom_rows version with Some l => assoc_last bytes_eqb l n | None => None end.

(* compiler/prims.rs prim_map(): HashMap built by inserting prims() in order *)
Definition prim_lookup (n : bytes) : option Z := assoc_last bytes_eqb modern_prims n.

(* which opcodes the evaluator selected for operators_version implements *)
Fixpoint runner_for (d : list (option N * bool * bool)) (version : N) : option (bool * bool) :=
  match d with
  | [] => None
  | (None, chia, kec) :: _ => Some (chia, kec)
  | (Some v, chia, kec) :: r => if v =? version then Some (chia, kec) else runner_for r version
  end.

Definition mem_N (x : N) (l : list N) : bool := existsb (N.eqb x) l.

Definition kws_mem (k : N * N * N) (op : N) : bool :=
  let '(q, a, s) := k in (op =? q) || (op =? a) || (op =? s).

Definition implemented (version : N) (op : N) : bool :=
  match runner_for runner_dispatch version with
  | None => false
  | Some (false, _) => mem_N op original_dialect_ops || kws_mem original_dialect_kws op
  | Some (true, kec) =>
      existsb (fun '(o, need) => (o =? op) && (negb need || kec)) chia_dialect_ops
      || kws_mem chia_dialect_kws op
  end.

(* clvmr reads a multi-byte opcode atom as a big-endian u32 only in the 4-byte case
   (chia_dialect.rs: op_len == 4) and as a small number in the 1-byte case. *)
Definition opcode_canonical (b : bytes) : bool :=
  match b with
  | [x] => (0 <? x) && (x <? 256)   (* one byte, non-zero *)
  | [a; _; _; _] => (0 <? a)
  | _ => false
  end.

Definition versions : list N := [0; 1; 2].

(* ---- the finite checks (decided by computation in Props/C20.v) ---- *)

Definition names_of (l : list row) : list bytes := map (fun '(_, n, _) => n) l.

Definition check_classic_to_modern : bool :=
  forallb (fun '(v, n, _) =>
    match prim_lookup n with Some z => Z.eqb z (Z.of_N (be_val v)) | None => false end) kw_pairs.

Definition check_modern_to_classic : bool :=
  forallb (fun '(n, z) =>
    match keyword_to_atom operators_latest_version n with
    | Some v => Z.eqb z (Z.of_N (be_val v)) | None => false end) modern_prims.

Definition check_inverse_version (ver : N) : bool :=
  match from_atom_rows ver, to_atom_rows ver with
  | Some fr, Some tr =>
      forallb (fun '(a, n) =>
         match keyword_from_atom ver a with
         | Some n' => match keyword_to_atom ver n' with Some a' => bytes_eqb a' a | None => false end
         | None => false end) fr
      && forallb (fun '(n, a) =>
         match keyword_to_atom ver n with
         | Some a' => match keyword_from_atom ver a' with Some n' => bytes_eqb n' n | None => false end
         | None => false end) tr
  | _, _ => false
  end.

Definition check_monotone (v w : N) : bool :=
  match from_atom_rows v, to_atom_rows v with
  | Some fr, Some tr =>
      forallb (fun '(a, n) => match keyword_from_atom v a, keyword_from_atom w a with
                              | Some x, Some y => bytes_eqb x y | None, _ => true | _, _ => false end) fr
      && forallb (fun '(n, a) => match keyword_to_atom v n, keyword_to_atom w n with
                              | Some x, Some y => bytes_eqb x y | None, _ => true | _, _ => false end) tr
  | _, _ => false
  end.

Definition check_implemented (ver : N) : bool :=
  match from_atom_rows ver with
  | Some fr => forallb (fun '(a, _) => opcode_canonical a && implemented ver (be_val a)) fr
  | None => false
  end.

Definition check_versions_cover : bool :=
  (operators_latest_version =? 2)
  && forallb (fun '(_, _, ver) => ver <=? operators_latest_version) kw_pairs.
