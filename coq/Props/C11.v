(* C11 - Every compile entry point produces the same program for the same source.
   Property theorems only. The option derivations of the entry points are regenerated from the source
   by the translator (Gen/Consts.v): clvmc.rs compile_clvm_text(_maybe_opt) for the library / bindings /
   file-to-file path, comp_input.rs RunAndCompileInputData::new + compile_modern for `run` and `cldb`
   (the translator also checks that both tools still build their options through that constructor).
   With equal options the compiler is a function of (source, includes, options) (C05), so equal
   derivations give equal programs. The check compares the actual outputs. *)
From CV Require Import Base.Prelude Gen.Consts.

(* the library entry point derives, for every dialect stepping, the options the command line derives with -O *)
Theorem C11_library_equals_cli_with_O : forall stepping,
  lib_optimize LIB_ENTRY_DO_OPTIMIZE stepping = cli_optimize true stepping /\
  lib_frontend_opt LIB_ENTRY_DO_OPTIMIZE stepping = cli_frontend_opt true stepping /\
  lib_post_opt LIB_ENTRY_DO_OPTIMIZE = cli_post_opt true.
Proof.
  intros stepping. unfold lib_optimize, cli_optimize, lib_frontend_opt, cli_frontend_opt, lib_post_opt, cli_post_opt, LIB_ENTRY_DO_OPTIMIZE.
  repeat split; reflexivity.
Qed.

(* and with any flag, the file/text entry with that flag derives what run / cldb derive with it *)
Theorem C11_same_flags_same_options : forall flag stepping,
  lib_optimize flag stepping = cli_optimize flag stepping /\
  lib_frontend_opt flag stepping = cli_frontend_opt flag stepping /\
  lib_post_opt flag = cli_post_opt flag.
Proof.
  intros flag stepping. unfold lib_optimize, cli_optimize, lib_frontend_opt, cli_frontend_opt, lib_post_opt, cli_post_opt.
  repeat split; reflexivity.
Qed.

Example C11_example : lib_optimize false 23 = true /\ lib_optimize false 21 = false /\ lib_frontend_opt true 22 = true.
Proof. vm_compute. repeat split. Qed.
