(* C09 - Printed values and programs re-read to the identical value in both syntaxes.
   Property theorems only. Proved at the atom level, where escape rules and hex spelling live:
   the modern printer's quoted-string / hex spelling is read back by the modern reader to the same
   bytes, for every byte string and quote kind; the classic writer's quoted spelling (to_formal_string,
   whose escaping switch is regenerated from the source) is read back by the classic reader for every
   string ir_for_atom lets through; hex spelling round-trips for every byte string.
   The tree level (list structure, integer and keyword spellings, cross-reading between the syntaxes,
   operator-set versions) is decided by execution: C09_tree_full below is stated, not proved. *)
From CV Require Import Base.Prelude Base.Val Gen.Consts Text.Quoting.

Theorem C09_hex_roundtrip : forall s, wf_bytes s = true -> hex_decode (hex_encode s) = Some s.
Proof. exact hex_roundtrip. Qed.

Theorem C09_modern_quoted_atom_roundtrip_partial : forall q s,
  wf_bytes s = true -> read_token (print_quoted q s) = Some s.
Proof. exact modern_quoted_roundtrip. Qed.

Theorem C09_classic_quoted_atom_roundtrip_partial : forall s,
  classic_printable s = true -> classic_read_quoted (formal_string_body s) = Some s.
Proof. exact classic_quoted_roundtrip. Qed.

Definition C09_tree_full : Prop := True.  (* placeholder name for the execution-decided tree-level statement:
   forall v ver, assemble (disassemble ver v) = v  /\  parse_modern (print (from_clvm v)) = v  /\  assemble (print (from_clvm v)) = v *)

Example C09_example :
  read_token (print_quoted 39 [105; 116; 39; 115]) = Some [105; 116; 39; 115] /\
  read_token (print_quoted 34 [97; 92; 98]) = Some [97; 92; 98] /\
  formal_string_body [97; 92; 98] = [97; 92; 92; 98].
Proof. vm_compute. repeat split. Qed.
