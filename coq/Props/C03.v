(* C03 - Classic compiler output computes what the source means.
   Property theorems only. The classic compiler (a compiler written as CLVM operators run through the
   optimiser) is not modelled as a whole; the whole statement is decided by execution (classic build vs
   the reference interpreter and vs the cl21 build). Proved: the NodePath arithmetic the classic
   compiler and optimiser use to address arguments and environment slots (node_path.rs compose_paths,
   the shift / mask loop) composes paths exactly: following the composed path is following the first and
   then the second, for all paths of any width; and the parameter-path lemma shared with C01. *)
From CV Require Import Base.Prelude Base.Val Clvm.Path Clvm.NodePath Lang.Lookup.

Theorem C03_compose_paths_is_append_partial : forall p q, compose_paths_n (Npos p) (Npos q) = Npos (papp p q).
Proof. exact compose_paths_spec. Qed.

Theorem C03_composed_path_traverses_partial : forall p q e,
  traverse_N (compose_paths_n (Npos p) (Npos q)) e = res_bind (traverse_pos p e) (traverse_pos q).
Proof. exact compose_paths_traverse. Qed.

Theorem C03_parameter_path_correct_partial : forall p name path env v,
  lookup p name = Some path -> select p name env = Some v -> traverse_pos path env = Ok v.
Proof. exact lookup_correct. Qed.

Example C03_example : compose_paths_n 9 10 = 81 /\ compose_paths_n 65535 2 = 98303.
Proof. vm_compute. split; reflexivity. Qed.
