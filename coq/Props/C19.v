(* C19 - The compiled output file is replaced atomically.
   Property theorems only. Model: Sys/AtomicWrite.v, a transition system for atomic_write_file /
   gentle_overwrite with N interleaved processes, crashes and failures at any step. Assumed (runtime
   behaviour the model cannot exhibit): rename(2) replaces the target in one step; process death
   leaves the directory as the last completed syscall left it; durability across power loss is not
   part of the property. The check ties the model to the code through the hook events and the
   observed syscall sequence, and explores kills at every hook point and every syscall. *)
From CV Require Import Base.Prelude Sys.AtomicWrite Sys.AtomicWriteProofs.

(* at every instant of every schedule (any number of writers, arbitrary chunking, crashes and
   failures anywhere) the output path holds its previous contents or the complete new contents of one
   of the calls: never an empty or partial file *)
Theorem C19_atomic_always :
  forall trim content_eqb prev calls evs,
    let s := run trim content_eqb (init_state prev calls) evs in
    target s = prev \/ exists d, In d (map fst calls) /\ target s = Some d.
Proof. exact atomic_always. Qed.

(* if the new contents equal the old (trimmed), the call still succeeds whatever cannot be rewritten *)
Theorem C19_same_contents_succeeds :
  forall trim content_eqb prev calls evs p ok,
    In p (procs (run trim content_eqb (init_state prev calls) evs)) ->
    ppc p = PDone ok -> psame p = true -> ok = true.
Proof. exact gentle_same_ok. Qed.

(* non-vacuity: a schedule with two writers, partial writes, a crash of the first one mid-write and a
   complete run of the second ends with the second one's data; a failed rename leaves the old file *)
Example C19_example :
  let eqb := fun a b : content => if list_eq_dec N.eq_dec a b then true else false in
  let s0 := init_state (Some [1; 2]) [([7; 8; 9], true); ([4; 5], true)] in
  target (run (fun c => c) eqb s0 [(0%nat, Advance 0); (0%nat, Advance 0); (0%nat, Advance 0); (1%nat, Advance 0);
                                   (0%nat, Crash); (1%nat, Advance 0); (1%nat, Advance 5); (1%nat, Advance 0)]) = Some [4; 5]
  /\ target (run (fun c => c) eqb s0 [(1%nat, Advance 0); (1%nat, Advance 0); (1%nat, Advance 9); (1%nat, FailOp)]) = Some [1; 2].
Proof. vm_compute. split; reflexivity. Qed.
