(* C04 - The CLVM-level optimiser preserves the meaning of any CLVM it is given.
   Property theorems only. Model: Opt/ClassicOpt.v (stage_2/optimize.rs as written, driver order and
   signedness of path reads regenerated from the source). Semantics: Clvm/Eval.v.
   Status: C04_sound_full (whenever the optimiser returns a program, it returns every value the original
   returns - for every tree, environment, fuel and operator oracle in which c/f/r are cons/first/rest) is PROVED
   for the model (C04_optimizer_sound), by induction over the driver loop from the soundness of each of the eight
   rules. Attempting this proof exposed D31 (the variable-change rule optimised the head of a substituted
   ((X) . operands) form as an expression), repaired in /repo; the guard is read back from the source
   (OPT_VAR_CHANGE_SKIPS_NEW_PAIR_HEAD) and the proof needs it to be true. C04_accepts_full (the optimiser never
   rejects a program that runs) is stated and NOT proved; it is decided by execution. The model omits the memo
   table (it maps a tree to the result computed earlier for an equal tree). *)
From CV Require Import Base.Prelude Base.Val Base.Bytes Clvm.Path Clvm.Eval Clvm.Ops Opt.ClassicOpt Opt.ClassicOptProofs Opt.PathOptProofs Opt.SubArgsProofs Opt.OptimizeSound.

Definition cfr_oracle (opf : bytes -> val -> option val) : Prop :=
  (forall a b, opf [4] (Cons a (Cons b nilv)) = Some (Cons a b)) /\
  (forall x, opf [5] (Cons x nilv) = match x with Cons a _ => Some a | Atom _ => None end) /\
  (forall x, opf [6] (Cons x nilv) = match x with Cons _ b => Some b | Atom _ => None end).

(* the full property, as a statement about the model *)
Definition C04_sound_full : Prop :=
  forall opf, cfr_oracle opf ->
  forall fuel r r' e n v, optimize opf fuel r = Done r' -> eval opf n r e = Ok v ->
    exists m, eval opf m r' e = Ok v.
Definition C04_accepts_full : Prop :=
  forall opf, cfr_oracle opf ->
  forall r e n v, eval opf n r e = Ok v -> forall fuel, optimize opf fuel r <> Failed.

Theorem C04_optimizer_sound : C04_sound_full.
Proof.
  intros opf (H1 & H2 & H3) fuel r r' e n v Ho Hv.
  exact (optimize_sound opf H1 H2 H3 fuel r r' Ho e n v Hv).
Qed.

Theorem C04_cons_rule_sound_partial : forall opf, cfr_oracle opf ->
  forall r e n v, eval opf n r e = Ok v -> exists m, eval opf m (cons_optimizer r) e = Ok v.
Proof. intros opf (H1 & H2 & H3). apply cons_optimizer_sound; assumption. Qed.

Theorem C04_cons_q_a_rule_sound_partial : forall opf r e n v,
  eval opf n r e = Ok v -> exists m, eval opf m (cons_q_a_optimizer r) e = Ok v.
Proof. intros opf. apply cons_q_a_optimizer_sound. Qed.

Theorem C04_quote_null_rule_sound_partial : forall opf r e n v,
  eval opf n r e = Ok v -> exists m, eval opf m (quote_null_optimizer r) e = Ok v.
Proof. intros opf. apply quote_null_optimizer_sound. Qed.

Theorem C04_apply_null_rule_sound_partial : forall opf r e n v,
  eval opf n r e = Ok v -> exists m, eval opf m (apply_null_optimizer r) e = Ok v.
Proof. intros opf. apply apply_null_optimizer_sound. Qed.

Theorem C04_path_rule_sound_partial : forall opf, cfr_oracle opf ->
  forall r e n v, eval opf n r e = Ok v -> exists m, eval opf m (path_optimizer r) e = Ok v.
Proof. intros opf (H1 & H2 & H3). apply path_optimizer_sound; assumption. Qed.

(* the substitution behind (a (q . SEXP) ARGS) => SEXP[paths := selections from ARGS] *)
Theorem C04_sub_args_sound_partial : forall opf, cfr_oracle opf ->
  forall n s ea v, eval opf n s ea = Ok v ->
  forall a e na, eval opf na a e = Ok ea -> exists m, eval opf m (sub_args s a) e = Ok v.
Proof. intros opf (H1 & H2 & H3). apply sub_args_sound; assumption. Qed.

Theorem C04_eval_fuel_monotone : forall opf n p e v,
  eval opf n p e = Ok v -> forall m, (n <= m)%nat -> eval opf m p e = Ok v.
Proof. intros opf. apply eval_mono. Qed.

Theorem C04_path_composition : forall p q e,
  traverse_pos (papp p q) e = res_bind (traverse_pos p e) (traverse_pos q).
Proof. exact traverse_papp. Qed.

(* non-vacuity: the executable oracle is a cfr_oracle, and the rules do fire *)
Example C04_oracle_ok : cfr_oracle opf_exec.
Proof. split; [exact opf_exec_cons|split; [exact opf_exec_first|exact opf_exec_rest]]. Qed.
Example C04_rules_fire :
  cons_optimizer (Cons (Atom [5]) (Cons (Cons (Atom [4]) (Cons (Atom [2]) (Cons (Atom [5]) nilv))) nilv)) = Atom [2] /\
  cons_q_a_optimizer (Cons (Atom [2]) (Cons (Cons (Atom [1]) (Atom [5])) (Cons (Atom [1]) nilv))) = Atom [5].
Proof. vm_compute. split; reflexivity. Qed.
