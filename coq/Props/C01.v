(* C01 - Compiled modern Chialisp computes what the source means.
   Property theorems only. The whole-compiler statement (C01_full, below as text) is NOT proved: the
   compiler (frontend, rename, inlining, lambda desugaring, macro expansion through the stepper, CSE,
   codegen) is not modelled as a whole. Proved here are the mechanisms every compiled variable reference
   rests on, for all parameter trees, names and argument values:
     - the environment path codegen computes for a parameter (create_name_lookup_, including nested and
       dotted parameter lists and (@ name pattern) captures) reaches, in any argument value of matching
       shape, exactly the component bound to that name;
     - a bound name always has a path, independent of the argument value.
   The whole-compiler statement is decided by execution: generated programs in six dialects, with and
   without optimisation, are compiled by the real compiler, run with clvmr and compared with the value of
   the reference interpreter (lib/srcgen.py).
   C01_full : for every program p of the generated surface, dialect d, arguments a and value v:
              source_eval p a = v -> compile d p = Ok c -> clvmr_eval c a = v. *)
From CV Require Import Base.Prelude Base.Val Clvm.Path Lang.Lookup.

Theorem C01_parameter_path_correct_partial : forall p name path env v,
  lookup p name = Some path -> select p name env = Some v -> traverse_pos path env = Ok v.
Proof. exact lookup_correct. Qed.

Theorem C01_bound_name_has_path_partial : forall p name env v,
  select p name env = Some v -> exists path, lookup p name = Some path.
Proof. exact lookup_total. Qed.

(* non-vacuity: (A (@ W (B C)) . D) : the path of C is 0b101101 = 45 read lsb first: rest, first, rest, first *)
Example C01_example :
  let p := PCons (PName [65]) (PCons (PAt [87] (PCons (PName [66]) (PCons (PName [67]) POther))) (PName [68])) in
  lookup p [67] = Some 21%positive /\ lookup p [87] = Some 5%positive /\ lookup p [68] = Some 7%positive /\
  select p [67] (Cons (Atom [1]) (Cons (Cons (Atom [2]) (Cons (Atom [3]) (Atom []))) (Atom [4]))) = Some (Atom [3]).
Proof. vm_compute. repeat split. Qed.
