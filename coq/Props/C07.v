(* C07 - Rich s-expression values and CLVM values convert without loss; hashes agree.
   Property theorems only. Model: Rich/Rich.v (convert_to_clvm_rs, convert_from_clvm_rs in both
   integer modes, the three tree hashes over an abstract SHA-256, SExp::nilp / equal_to / Hash). *)
From CV Require Import Base.Prelude Base.Val Base.Bytes Rich.Rich Rich.RichProofs.

(* CLVM -> rich -> CLVM is the identity, in every dialect's integer mode *)
Theorem C07_to_from : forall mode v, to_clvm mode (from_clvm mode v) = v.
Proof. exact to_from. Qed.

(* tree hash on the rich form = consensus tree hash of its CLVM form; rich form of v hashes as v;
   the classic tree hash is the consensus tree hash *)
Theorem C07_hash_of_rich : forall mode r, sha256tree_rich mode r = treehash (to_clvm mode r).
Proof. exact hash_to. Qed.
Theorem C07_hash_of_converted : forall mode v, sha256tree_rich mode (from_clvm mode v) = treehash v.
Proof. exact hash_rich. Qed.
Theorem C07_hash_classic : forall v, sha256tree_classic v = treehash v.
Proof. exact hash_classic. Qed.

(* in the fixed mode, two rich values compare equal exactly when their CLVM encodings are identical
   (for all rich values, not only reader/converter images) *)
Theorem C07_eq_iff_bytes : forall a b, equal_to a b = true <-> to_clvm true a = to_clvm true b.
Proof. exact eq_iff_bytes. Qed.

(* ... and then they feed the same bytes to Hash, for values without an Integer 0 node; values
   converted from CLVM in the fixed mode have none (the reader's make_atom maps "0" to Nil: Text/Reader) *)
Theorem C07_hash_compat : forall a b, no_int0 a = true -> no_int0 b = true ->
  equal_to a b = true -> hash_stream a = hash_stream b.
Proof. intros a b Ha Hb E. apply to_clvm_hash_stream; try assumption. apply eq_iff_bytes. exact E. Qed.
Theorem C07_converted_no_int0 : forall v, no_int0 (from_clvm true v) = true.
Proof. exact from_clvm_no_int0. Qed.

(* non-vacuity *)
Example C07_example :
  from_clvm true (Cons (Atom [0]) (Cons (Atom [0; 128]) (Atom [255; 127]))) =
    RCons (RQuoted 120 [0]) (RCons (RInt 128) (RInt (-129))) /\
  from_clvm false (Atom [0]) = RInt 0 /\
  equal_to (RInt 65) (RQuoted 34 [65]) = true /\ equal_to (RInt 0) RNil = true.
Proof. vm_compute. repeat split. Qed.
