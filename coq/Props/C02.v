(* C02 - Optimisation switches and optimising dialects never change results.
   Property theorems only. The source-level optimisers (CSE, de-inlining, constant folding of the
   strategy optimiser, the cl22 frontend optimiser) are not modelled; for them the property is decided by
   execution (build-vs-build comparison over the C01 matrix and against the reference interpreter).
   Proved: the classic post-optimiser (the `-O` / library-path switch of cl21 and cl22 builds, and the final
   pass of every build: optimize/mod.rs run_optimizer = stage_2 optimize_sexp) never changes a returned value -
   the whole driver with its eight rules (C02_post_optimiser_sound, shared with C04) - and fuel monotonicity of
   the evaluation relation (a build may take more or fewer steps, never change a returned value by that). *)
From CV Require Import Base.Prelude Base.Val Base.Bytes Clvm.Path Clvm.Eval Clvm.Ops Opt.ClassicOpt Opt.ClassicOptProofs Opt.OptimizeSound.

Theorem C02_post_optimiser_sound_partial : forall opf,
  (forall a b, opf [4] (Cons a (Cons b nilv)) = Some (Cons a b)) ->
  (forall x, opf [5] (Cons x nilv) = match x with Cons a _ => Some a | Atom _ => None end) ->
  (forall x, opf [6] (Cons x nilv) = match x with Cons _ b => Some b | Atom _ => None end) ->
  forall fuel r r', optimize opf fuel r = Done r' ->
  forall e n v, eval opf n r e = Ok v -> exists m, eval opf m r' e = Ok v.
Proof. intros opf H1 H2 H3 fuel r r' Ho e n v Hv. exact (optimize_sound opf H1 H2 H3 fuel r r' Ho e n v Hv). Qed.

Theorem C02_post_optimiser_cons_rule_partial : forall opf,
  (forall a b, opf [4] (Cons a (Cons b nilv)) = Some (Cons a b)) ->
  (forall x, opf [5] (Cons x nilv) = match x with Cons a _ => Some a | Atom _ => None end) ->
  (forall x, opf [6] (Cons x nilv) = match x with Cons _ b => Some b | Atom _ => None end) ->
  forall r e n v, eval opf n r e = Ok v -> exists m, eval opf m (cons_optimizer r) e = Ok v.
Proof. intros opf H1 H2 H3. apply cons_optimizer_sound; assumption. Qed.

Theorem C02_post_optimiser_apply_quote_rule_partial : forall opf r e n v,
  eval opf n r e = Ok v -> exists m, eval opf m (cons_q_a_optimizer r) e = Ok v.
Proof. intros opf. apply cons_q_a_optimizer_sound. Qed.

Theorem C02_more_steps_same_value_partial : forall opf n p e v,
  eval opf n p e = Ok v -> forall m, (n <= m)%nat -> eval opf m p e = Ok v.
Proof. intros opf. apply eval_mono. Qed.
