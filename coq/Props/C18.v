(* C18 - The dependency listing names every file a compilation reads.
   Property theorems only. Model: Sys/Deps.v (include graph, first-match resolution, the compile
   traversal's reads and recurse_dependencies' record; whether embedded files are recorded is
   regenerated from the source). *)
From CV Require Import Base.Prelude Gen.Consts Sys.Deps Sys.DepsProofs.

(* every file the compilation reads is listed (any include graph, any search path, any depth) *)
Theorem C18_reads_subset_deps : forall fuel fs search ds x,
  In x (reads fuel fs search ds) -> In x (deps fuel fs search ds).
Proof. exact reads_subset_deps. Qed.

(* each listed name is the first match in search-path order, never a later file of the same name *)
Theorem C18_listed_is_first_match : forall fuel fs search ds d n,
  In (d, n) (deps fuel fs search ds) ->
  exists c before after, resolve fs search n = Some (d, c) /\ search = before ++ d :: after /\
    forall d', In d' before -> fs d' n = None.
Proof. exact deps_first_match. Qed.

(* non-vacuity: a graph with a shadowed file and an embed reached through an include *)
Example C18_example :
  let fs : fsys := fun d n =>
    match d, n with
    | 0%nat, 0%nat => Some [DInclude 1%nat; DOther]
    | 1%nat, 1%nat => Some [DEmbed 2%nat]
    | 0%nat, 1%nat => None
    | 1%nat, 2%nat => Some []
    | 0%nat, 2%nat => Some []
    | _, _ => None
    end in
  reads 5 fs [1%nat; 0%nat] [DInclude 0%nat] = [(0%nat, 0%nat); (1%nat, 1%nat); (1%nat, 2%nat)]
  /\ deps 5 fs [1%nat; 0%nat] [DInclude 0%nat] = [(0%nat, 0%nat); (1%nat, 1%nat); (1%nat, 2%nat)].
Proof. vm_compute. split; reflexivity. Qed.
