(* C15 - Source locations point at the text they describe.
   Property theorems only. Model: Text/Srcloc.v (srcloc.rs advance / ext and the reader's span
   bookkeeping for the two kinds of leaf tokens that carry a span). Proved for every line, column,
   word and string length: a bareword's location starts at its first character and ends just past its
   last one; a quoted string's location runs from its opening to just past its closing quote, on one
   or several lines. List spans, #-prefixed tokens, error locations and byte-at-a-time = whole parsing
   are decided by execution (every leaf's location is used to slice the text and the slice is re-read;
   lists are checked against the generator's own parenthesis positions). *)
From CV Require Import Base.Prelude Text.Srcloc.

Theorem C15_bareword_span_partial : forall l c w, w <> [] ->
  loc_min (bareword_emit l c w) = (l, c) /\ loc_max (bareword_emit l c w) = (l, c + length w)%nat.
Proof. exact bareword_span. Qed.

Theorem C15_quoted_span_partial : forall l c n, (0 < n)%nat ->
  let r := ext (point l c) (point l (c + n)) in loc_min r = (l, c) /\ loc_max r = (l, S (c + n)).
Proof. exact quoted_span_same_line. Qed.

Theorem C15_quoted_span_multiline_partial : forall l c l' c', (l < l')%nat ->
  let r := ext (point l c) (point l' c') in loc_min r = (l, c) /\ loc_max r = (l', S c').
Proof. exact quoted_span_multi_line. Qed.

Example C15_example : loc_max (bareword_emit 3 7 [97; 98; 99]) = (3%nat, 10%nat) /\ loc_max (bareword_emit 1 4 [97]) = (1%nat, 5%nat).
Proof. vm_compute. split; reflexivity. Qed.
