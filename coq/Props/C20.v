(* C20 - All operator tables agree with each other and with the evaluator.
   Property theorems only. The tables are Gen/OpTables.v, regenerated from /repo's
   source by the translator on every run, so these are re-proved against what the
   code says now. Finite domain: each proof is a computation over the generated
   tables lifted to all names / atoms by Tables/OpTablesProofs.v. *)
From Coq Require Import String.
From CV Require Import Base.Prelude Gen.OpTables Tables.OpTablesModel Tables.OpTablesProofs.
Open Scope string_scope. Open Scope N_scope.

(* every classic (name, opcode) is the modern compiler's / stepper's (name, opcode) *)
Theorem C20_classic_names_are_modern :
  forall v n ver, In (v, n, ver) kw_pairs -> prim_lookup n = Some (Z.of_N (be_val v)).
Proof. exact (classic_to_modern_lift eq_refl). Qed.

(* and conversely, every modern primitive is a classic keyword of the latest version with the same opcode *)
Theorem C20_modern_names_are_classic :
  forall n z, prim_lookup n = Some z ->
    exists v, keyword_to_atom operators_latest_version n = Some v /\ z = Z.of_N (be_val v).
Proof. exact (modern_to_classic_lift eq_refl). Qed.

(* name->opcode and opcode->name are mutually inverse within each version *)
Theorem C20_inverse_per_version :
  forall ver, In ver versions ->
  forall a n, keyword_from_atom ver a = Some n <-> keyword_to_atom ver n = Some a.
Proof.
  intros ver Hv. cbn in Hv.
  destruct Hv as [<-|[<-|[<-|[]]]]; apply inverse_lift; vm_compute; reflexivity.
Qed.

(* versions only ever add names *)
Theorem C20_versions_monotone :
  forall v w, In v versions -> In w versions -> v <= w ->
  (forall a n, keyword_from_atom v a = Some n -> keyword_from_atom w a = Some n) /\
  (forall n a, keyword_to_atom v n = Some a -> keyword_to_atom w n = Some a).
Proof.
  intros v w Hv Hw Hle. cbn in Hv, Hw.
  destruct Hv as [<-|[<-|[<-|[]]]]; destruct Hw as [<-|[<-|[<-|[]]]];
    try (exfalso; lia); apply monotone_lift; vm_compute; reflexivity.
Qed.

(* every opcode a version names is a canonically spelled opcode that the evaluator
   selected for that version implements *)
Theorem C20_opcodes_implemented :
  forall ver, In ver versions ->
  forall a n, keyword_from_atom ver a = Some n ->
    opcode_canonical a = true /\ implemented ver (be_val a) = true.
Proof.
  intros ver Hv. cbn in Hv.
  destruct Hv as [<-|[<-|[<-|[]]]]; apply implemented_lift; vm_compute; reflexivity.
Qed.

(* the version list above is all there is *)
Theorem C20_versions_cover : check_versions_cover = true.
Proof. vm_compute. reflexivity. Qed.

(* non-vacuity: the tables are not empty and contain the 4-byte opcodes *)
Example C20_nonvacuous :
  keyword_from_atom 2 [62] = Some (str "keccak256") /\
  keyword_from_atom 1 [62] = None /\
  keyword_to_atom 1 (str "secp256k1_verify") = Some [19; 214; 31; 0] /\
  prim_lookup (str "softfork") = Some 36%Z.
Proof. vm_compute. repeat split. Qed.
