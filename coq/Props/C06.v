(* C06 - The built-in stepping evaluator agrees with the consensus CLVM evaluator.
   Property theorems only. Model: Step/Stepper.v (the RunStep machine of compiler/clvm.rs over CLVM
   values, strict core); consensus relation: Clvm/Eval.v.
   Proved (for every program, environment, continuation and every operator oracle that knows the
   natively implemented operators only under their canonical spelling): whenever the consensus
   evaluator returns v without evaluating a ((X) ...) form, the stepping machine terminates with v.
   The converse direction is false of the code as it stands in the recorded leniency classes
   (operator given by name, non-canonical opcode bytes, ((X) ...) heads): see known_findings.json;
   it is stated below and decided by execution outside those classes. *)
From CV Require Import Base.Prelude Base.Val Base.Bytes Clvm.Path Clvm.Eval Clvm.Ops Step.Stepper Step.StepperProofs.

Definition strict_native_oracle (opf : bytes -> val -> option val) : Prop :=
  (forall h args v, opf h args = Some v -> native_value h = true -> exists o, h = [o] /\ o < 256) /\
  (forall vs, opf [3] (of_list vs) = match vs with [c; x; y] => Some (if nilp c then y else x) | _ => None end) /\
  (forall vs, opf [4] (of_list vs) = match vs with [x; y] => Some (Cons x y) | _ => None end) /\
  (forall vs, opf [5] (of_list vs) = match vs with [Cons x _] => Some x | _ => None end) /\
  (forall vs, opf [6] (of_list vs) = match vs with [Cons _ y] => Some y | _ => None end).

(* the full property as a statement about the model (not proved: false in the leniency classes) *)
Definition C06_agrees_full : Prop :=
  forall opf, strict_native_oracle opf -> forall p e v,
    (exists l, run opf l (start p e) = Ok v) <-> (exists n, eval opf n p e = Ok v).

Theorem C06_stepper_returns_consensus_value_partial :
  forall opf, strict_native_oracle opf ->
  forall n p e v, eval_nph opf n p e = Ok v ->
    exists l, forall l', (l <= l')%nat -> run opf l' (start p e) = Ok v.
Proof.
  intros opf (H1 & H2 & H3 & H4 & H5). apply stepper_returns_consensus_value; assumption.
Qed.

(* eval_nph is the consensus relation restricted to programs that never evaluate a ((X) ...) form *)
Theorem C06_eval_nph_is_consensus :
  forall opf n p e v, eval_nph opf n p e = Ok v -> eval opf n p e = Ok v.
Proof. exact eval_nph_eval. Qed.

(* every continuation: stepping a sub-expression inside any parent chain returns its value to the parent *)
Theorem C06_forward_simulation :
  forall opf, strict_native_oracle opf ->
  forall n p e v, eval_nph opf n p e = Ok v ->
  forall K, exists m, iter opf m (SStep p e K) = Some (combine_done v K).
Proof. intros opf (H1 & H2 & H3 & H4 & H5). apply forward; assumption. Qed.

Example C06_example :
  run opf_exec 100 (start (Cons (Atom [16]) (Cons (Cons (Atom [1]) (Atom [5])) (Cons (Atom [2]) nilv))) (Cons (Atom [7]) nilv)) = Ok (Atom [12])
  /\ eval_nph opf_exec 10 (Cons (Atom [16]) (Cons (Cons (Atom [1]) (Atom [5])) (Cons (Atom [2]) nilv))) (Cons (Atom [7]) nilv) = Ok (Atom [12]).
Proof. vm_compute. split; reflexivity. Qed.
