(* C05 - Compilation is a pure function of source, include files and options.
   Property theorems only. Model: Sys/History.v, the process-global state (fresh-name counter, per-thread
   integer-conversion mode with its restoring guard) as a state machine over arbitrary compile histories
   (nested compilations, failing compilations, foreign code that leaves the mode flipped).
   Proved for all histories: a compilation restores the mode it found (also when it fails), every
   compilation body starts under the mode of its own dialect regardless of what ran before, and the
   counter only grows. That the emitted code does not depend on the counter's starting value, on hash
   seeds or on the thread is runtime behaviour this model cannot exhibit: it is explored by the check
   (same source compiled under many counter values, after other and failing compilations, with the mode
   flipped, in fresh processes and from concurrent threads; bytes and user-visible symbols compared). *)
From CV Require Import Base.Prelude Sys.History Sys.HistoryProofs.

Theorem C05_compile_restores_mode : forall fx body fails s obs,
  mode (fst (run_act (Compile fx body fails) s obs)) = mode s.
Proof. exact compile_restores_mode. Qed.

Theorem C05_compile_sees_own_dialect_mode : forall h s,
  forall o, In o (snd (run_hist h s [])) -> fst o = snd o.
Proof.
  intros h s. assert (G : forall h s obs, (forall o, In o obs -> fst o = snd o) ->
                          forall o, In o (snd (run_hist h s obs)) -> fst o = snd o).
  { induction h0 as [|x r IH]; intros s0 obs Hobs o Ho; cbn [run_hist] in Ho; [apply Hobs; exact Ho|].
    destruct (run_act x s0 obs) as [s' o'] eqn:E. apply (IH s' o'); [|exact Ho].
    intros o1 H1. apply (compile_sees_own_mode x s0 obs Hobs). rewrite E. exact H1. }
  apply G. intros o [].
Qed.

Theorem C05_counter_only_grows : forall a s obs, (ctr s <= ctr (fst (run_act a s obs)))%nat.
Proof. exact counter_monotone. Qed.

(* non-vacuity: a failing nested compilation of another dialect inside a compilation, after a leaked flip *)
Example C05_example :
  let h := [SetMode false; Compile true [Gensym; Compile false [Gensym] true; Gensym] false; Gensym] in
  run_hist h (mkG 7 true) [] = (mkG 11 false, [(false, false); (true, true)]).
Proof. vm_compute. reflexivity. Qed.
