(* C17 - An argument reported as unused really cannot influence the result.
   Property theorems only, over the evaluator model of Lang/PEval.v: the unused-argument check evaluates the
   program with nothing known and reports the parameters that do not occur in the residue.
   Proved: two runs that differ only in a reported parameter and both return a value return the same value.
   NOT provable (and false of the model, see the example): that one run fails exactly when the other does -
   the evaluator substitutes argument expressions, so an argument that is evaluated by compiled code but not
   used by the callee disappears from the residue although its evaluation can fail. The full property is
   decided against the implementation by execution (checks/c17.py). *)
From CV Require Import Base.Prelude Base.Val Lang.PEval Lang.PEvalProofs.

Theorem C17_reported_unused_cannot_change_a_value_partial :
  forall opf funs fs np body n rho rho' f f' v v',
  reported_unused opf funs fs np body n = true -> agree_except n rho rho' ->
  seval opf funs f rho [] body = Some v -> seval opf funs f' rho' [] body = Some v' -> v = v'.
Proof. exact unused_noninterference. Qed.

(* the failure half does not hold of the model: X0 is reported unused, yet the program fails or not depending on it *)
Example C17_failure_half_refuted :
  let opf := fun (op : bytes) (args : val) => match op, args with [5], Cons (Cons a _) _ => Some a | _, _ => None end in
  let funs := [ELocal 1] in
  let main := ECall 0 [EOp [5] [EVar 0]; EConst (Atom [7])] in
  reported_unused opf funs 10 1 main 0 = true
  /\ seval opf funs 10 [Atom [1]] [] main = None
  /\ seval opf funs 10 [Cons (Atom [1]) (Atom [2])] [] main = Some (Atom [7]).
Proof. vm_compute. repeat split; reflexivity. Qed.
