(* C12 - The debugger's trace is a faithful account of the real execution.
   Property theorems only. Model: Step/Cldb.v (CldbRun::step as a row machine) over Step/Stepper.v.
   Proved for every program, environment and operator oracle: every trace row that reports an operator
   other than apply and if together with its arguments and a value is true (that operator applied to
   those arguments gives that value), and a Final entry carries exactly the value the stepping machine
   reaches (which is the consensus value by C06's theorem). The row for the if operator is excluded:
   it is the open known finding D8 (the code reports the value of a later result there). Row numbering,
   the hierarchical view and hex = source are decided by execution. *)
From CV Require Import Base.Prelude Base.Val Base.Bytes Clvm.Path Clvm.Eval Clvm.Ops Step.Stepper Step.Cldb Step.CldbProofs.

Theorem C12_rows_true_partial : forall opf fuel p e n h args v,
  In (ROp n h args v) (trace opf fuel (cldb_start p e)) -> not_a_i h = true ->
  op_meaning opf h args = Some v.
Proof. intros opf fuel p e. apply rows_true. apply pending_ok_start. Qed.

Theorem C12_final_is_machine_result : forall opf fuel p e v,
  In (RFinal v) (trace opf fuel (cldb_start p e)) -> exists m, iter opf m (start p e) = Some (SDone v).
Proof. intros opf fuel p e v H. apply (final_is_machine_result opf fuel (cldb_start p e) v H). Qed.

Example C12_example :
  trace opf_exec 100 (cldb_start (Cons (Atom [16]) (Cons (Cons (Atom [1]) (Atom [5])) (Cons (Atom [2]) nilv))) (Cons (Atom [7]) nilv))
  = [ROp 0 [16] (Cons (Atom [5]) (Cons (Atom [7]) nilv)) (Atom [12]); RFinal (Atom [12])].
Proof. vm_compute. reflexivity. Qed.
