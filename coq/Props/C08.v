(* C08 - Binary (de)serialisation is lossless, canonical and rejects malformed input.
   Property theorems only; models in Ser/Serialize.v (serialize.rs as written, constants and
   prefix expressions regenerated from /repo by the translator), proofs in Ser/SerializeProofs.v. *)
From CV Require Import Base.Prelude Base.Val Base.Bytes Gen.Consts Ser.Serialize Ser.SerializeProofs.

(* the encoder emits exactly the consensus (clvmr serde) bytes, for atoms of every representable length *)
Theorem C08_encode_is_consensus : forall v e, spec_encode v = Some e -> encode v = Some e.
Proof. exact encode_spec. Qed.
