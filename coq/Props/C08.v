(* C08 - Binary (de)serialisation is lossless, canonical and rejects malformed input.
   Property theorems only. Model: Ser/Serialize.v (serialize.rs as written: the explicit-stack
   encoder, atom_from_stream, the op-stack decoder whose per-op errors are ignored, Stream::read
   short reads, int_from_bytes with get_u32) with the size classes, prefix expressions, markers,
   limits and the get_u32 expression regenerated from /repo's source by the translator
   (Gen/Consts.v). Reference codec: spec_encode / spec_decode (clvmr serde's format), tied to clvmr
   itself by the consensus tie of the check. *)
From CV Require Import Base.Prelude Base.Val Base.Bytes Gen.Consts Ser.Serialize Ser.SerializeProofs.

(* the encoder emits exactly the consensus bytes, for atoms of every representable length *)
Theorem C08_encode_is_consensus : forall v e, spec_encode v = Some e -> encode v = Some e.
Proof. exact encode_spec. Qed.

(* serialise then deserialise returns the same value (and leaves what follows untouched) *)
Theorem C08_decode_encode : forall v e rest, spec_encode v = Some e -> decode (e ++ rest) = Some (v, rest).
Proof. exact decode_encode. Qed.

Corollary C08_roundtrip : forall v e, encode v = Some e -> spec_encode v <> None -> decode e = Some (v, []).
Proof.
  intros v e He Hs. destruct (spec_encode v) as [e'|] eqn:E; [|contradiction].
  pose proof (encode_spec v e' E) as He'. rewrite He in He'. inversion He'; subst e'.
  rewrite <- (app_nil_r e). apply decode_encode. exact E.
Qed.

(* deserialising any byte string either fails or returns exactly what the consensus deserialiser
   returns for it (value and position): truncated or over-long prefixes never become another value *)
Theorem C08_decode_sound : forall s v rest, wf_bytes s = true ->
  decode s = Some (v, rest) -> exists g, spec_decode g s = Some (v, rest).
Proof. exact decode_sound. Qed.

(* no strict prefix of a serialised value deserialises: a truncated file or stream is always an error *)
Theorem C08_truncated_rejected : forall v e p t,
  spec_encode v = Some e -> e = p ++ t -> t <> [] -> wf_bytes e = true -> decode p = None.
Proof. exact truncated_rejected. Qed.

(* non-vacuity: a non-trivial value meets the hypotheses, and the decoder does reject things *)
Example C08_example_encode :
  spec_encode (Cons (Atom [1;2;3]) (Cons (Atom [200]) (Atom []))) = Some [255; 131; 1; 2; 3; 255; 129; 200; 128].
Proof. vm_compute. reflexivity. Qed.
Example C08_example_reject : decode [255; 1] = None /\ decode [254; 0; 0; 0; 0; 0; 1; 65] = None /\ decode [193; 0] = None.
Proof. vm_compute. repeat split. Qed.
