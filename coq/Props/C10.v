(* C10 - Ill-scoped programs are rejected, never miscompiled and never loop the compiler.
   Property theorems only. Proved, for the dependency sort behind assign forms (util/mod.rs toposort):
   it always terminates with an order or with the circular-dependency error, and a returned order places
   every binding after the bindings that provide what it needs (so a cyclic or unsatisfiable set of
   bindings is never given an order). Rejection of unbound identifiers, duplicate function names and
   recursive inline functions is decided by execution: well-scoped generated programs with exactly one
   injected defect must fail to compile, in bounded time, with an error naming the identifier or form,
   while the program without the defect compiles. *)
From Coq Require Import Sorting.Permutation.
From CV Require Import Base.Prelude Lang.Scope Lang.ScopeProofs.

Theorem C10_toposort_terminates : forall items, toposort items <> Oof.
Proof. exact toposort_never_loops. Qed.

Theorem C10_toposort_order_respects_needs : forall items order, toposort items = Ok order -> respects [] order.
Proof. exact toposort_order_ok. Qed.

Theorem C10_toposort_is_permutation : forall items order, toposort items = Ok order -> Permutation order items.
Proof. exact toposort_is_permutation. Qed.

(* hoist_assign_form: every stage of parallel lets built from an order that respects the needs binds only
   from strictly earlier stages, so no binding can see a sibling of its own stage *)
Theorem C10_assign_stages_are_valid_parallel_lets : forall order, respects [] order -> stages_ok [] (assign_stages order).
Proof. exact assign_stages_sound. Qed.

Theorem C10_assign_pipeline : forall items order,
  toposort items = Ok order -> Permutation order items /\ stages_ok [] (assign_stages order).
Proof. exact assign_pipeline. Qed.

(* non-vacuity: a satisfiable set is ordered, a cyclic one is the deadlock error *)
Example C10_example :
  (toposort [mkItem 0 [2] [1]; mkItem 1 [] [2]; mkItem 2 [1; 2] [3]] = Ok [mkItem 1 [] [2]; mkItem 0 [2] [1]; mkItem 2 [1; 2] [3]]
  /\ toposort [mkItem 0 [2] [1]; mkItem 1 [1] [2]] = Fail)%nat.
Proof. vm_compute. split; reflexivity. Qed.
