(* C13 - Symbol tables describe the emitted program.
   Property theorems only. Symbol-table construction is not modelled as a whole; the property is decided
   by execution (every entry whose key is the tree hash of a subtree of the emitted program is checked:
   name, recorded arguments, behaviour of the extracted code against the reference interpreter;
   completeness in unoptimised builds). Proved: the calling convention the extraction relies on - a
   function compiled with the environment on the left receives (ENV . ARGS), so a parameter found at
   path p of the argument tree is read at path 2p+1, for every parameter tree. *)
From CV Require Import Base.Prelude Base.Val Clvm.Path Lang.Lookup.

Theorem C13_left_env_convention_partial : forall args_pat name path envv args v,
  lookup args_pat name = Some path -> select args_pat name args = Some v ->
  traverse_pos (xI path) (Cons envv args) = Ok v.
Proof.
  intros args_pat name path envv args v Hl Hs. cbn [traverse_pos]. exact (lookup_correct _ _ _ _ _ Hl Hs).
Qed.

Theorem C13_lookup_with_env_pattern_partial : forall args_pat name path,
  lookup args_pat name = Some path -> lookup (PCons POther args_pat) name = Some (xI path).
Proof. intros args_pat name path H. cbn [lookup]. rewrite H. reflexivity. Qed.
