(* C16 - The REPL / partial evaluator only ever returns what the compiled program would.
   Property theorems only, over the evaluator model of Lang/PEval.v (first-order core: constants, program
   and function parameters, strict primitives through the operator oracle, the lazy conditional, function
   calls expanded by substituting argument expressions, a depth limit that is an error).
   The model is run against Repl::process_line on the programs of the build matrix that lie in this core
   (checks/c16.py); programs outside it (macros with quasi-quotation, strings, lambdas with captures) are
   decided by execution only. *)
From CV Require Import Base.Prelude Base.Val Lang.PEval Lang.PEvalProofs.

(* whenever the expression has a value (as compiled code computes it, call by value), the residue the
   evaluator returns has that same value, for every argument list consistent with what the evaluator knew *)
Theorem C16_residual_agrees_with_program :
  forall opf funs fs known rho, consistent known rho ->
  forall e e' fv v,
  shrink opf funs fs known [] e = Some e' -> seval opf funs fv rho [] e = Some v ->
  exists F, seval opf funs F rho [] e' = Some v.
Proof. intros opf funs fs known rho Hk e e' fv v. exact (shrink_sound opf funs fs known rho Hk [] e e' [] fv v (Forall2_nil _)). Qed.

(* a constant returned by the evaluator is the value of the program (never a different one) *)
Theorem C16_constant_is_the_value :
  forall opf funs fs known rho e c fv v, consistent known rho ->
  shrink opf funs fs known [] e = Some (EConst c) -> seval opf funs fv rho [] e = Some v -> c = v.
Proof. exact shrink_constant_is_value. Qed.

(* the residue is self-contained: no calls and no function parameters remain, so it can be compiled alone *)
Theorem C16_residue_is_self_contained :
  forall opf funs fs known e e', shrink opf funs fs known [] e = Some e' -> plain e' = true.
Proof. intros opf funs fs known e e' H. exact (shrink_plain opf funs fs known [] e e' eq_refl H). Qed.

(* non-vacuity: the evaluator can be lazier than the program. F0(a, b) = b ; main = F0 (first X0) 7:
   the evaluator answers 7 with nothing known, the program fails when X0 is an atom *)
Example C16_example_lazier :
  let opf := fun (op : bytes) (args : val) => match op, args with [5], Cons (Cons a _) _ => Some a | _, _ => None end in
  let funs := [ELocal 1] in
  let main := ECall 0 [EOp [5] [EVar 0]; EConst (Atom [7])] in
  shrink opf funs 10 [None] [] main = Some (EConst (Atom [7]))
  /\ seval opf funs 10 [Atom [1]] [] main = None
  /\ seval opf funs 10 [Cons (Atom [1]) (Atom [2])] [] main = Some (Atom [7]).
Proof. vm_compute. repeat split; reflexivity. Qed.
