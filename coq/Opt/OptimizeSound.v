(* Soundness of the whole classic optimiser (the driver loop optimize_sexp_ with its eight rules), for the model
   of Opt/ClassicOpt.v: whenever optimize returns a program, that program returns every value the original
   returns. Built from the rule lemmas of ClassicOptProofs / PathOptProofs / SubArgsProofs. *)
From CV Require Import Base.Prelude Base.Val Base.Bytes Gen.Consts Clvm.Path Clvm.Eval Opt.ClassicOpt Opt.ClassicOptProofs Opt.PathOptProofs Opt.SubArgsProofs.

Section Sound.
Variable opf : bytes -> val -> option val.
Hypothesis opf_cons : forall a b, opf [4] (Cons a (Cons b nilv)) = Some (Cons a b).
Hypothesis opf_first : forall x, opf [5] (Cons x nilv) = match x with Cons a _ => Some a | Atom _ => None end.
Hypothesis opf_rest : forall x, opf [6] (Cons x nilv) = match x with Cons _ b => Some b | Atom _ => None end.
Notation eval := (eval opf).

Definition sound (a b : val) : Prop := forall e n v, eval n a e = Ok v -> exists m, eval m b e = Ok v.

Lemma sound_refl a : sound a a.
Proof. intros e n v H. exists n. exact H. Qed.
Lemma sound_trans a b c : sound a b -> sound b c -> sound a c.
Proof. intros H1 H2 e n v H. destruct (H1 e n v H) as [m Hm]. exact (H2 e m v Hm). Qed.

Lemma eval_det n m p e v w : eval n p e = Ok v -> eval m p e = Ok w -> v = w.
Proof.
  intros H1 H2.
  pose proof (eval_mono opf n p e v H1 (Nat.max n m) (Nat.le_max_l _ _)) as A.
  pose proof (eval_mono opf m p e w H2 (Nat.max n m) (Nat.le_max_r _ _)) as B. congruence.
Qed.

Lemma of_list_to_list : forall r items, to_list r = Some items -> r = of_list items.
Proof.
  induction r as [b|a _ t IH]; intros items H; cbn in H.
  - destruct b; [|discriminate]. inversion H. reflexivity.
  - destruct (to_list t) as [l|]; [|discriminate]. inversion H; subst. cbn. rewrite (IH l eq_refl). reflexivity.
Qed.

(* ---- constant expressions do not look at the environment ---- *)
Fixpoint const_tail (t : val) : bool :=
  match t with
  | Cons l r' => seems_constant l && const_tail r'
  | Atom b => match b with [] => true | _ => false end
  end.

Lemma seems_constant_cons operator r :
  seems_constant (Cons operator r) =
  match operator with
  | Atom [1] => true
  | Atom [8] => false
  | Atom _ => const_tail r
  | Cons _ _ => seems_constant operator && const_tail r
  end.
Proof.
  assert (Ht : forall t, (fix tl (t : val) : bool :=
                     match t with
                     | Cons l r' => seems_constant l && tl r'
                     | Atom b => match b with [] => true | _ => false end
                     end) t = const_tail t).
  { induction t as [b|l _ r' IH]; [reflexivity|]. cbn [const_tail]. rewrite <- IH. reflexivity. }
  cbn [seems_constant]. rewrite !Ht. reflexivity.
Qed.

Lemma const_indep : forall n s e e' v, seems_constant s = true -> eval n s e = Ok v -> eval n s e' = Ok v.
Proof.
  induction n as [|n IH]; intros s e e' v Hc H; [discriminate|].
  destruct s as [b|operator r].
  - cbn in Hc. destruct b; [|discriminate]. exact H.
  - rewrite seems_constant_cons in Hc. rewrite eval_S in H |- *. cbv zeta in *.
    destruct operator as [op|x t].
    + destruct (bytes_eqb op quote_atom) eqn:Eq; [exact H|].
      assert (Hct : const_tail r = true).
      { clear - Hc Eq.
        repeat match type of Hc with context [match ?x with _ => _ end] => destruct x; try discriminate Hc; try exact Hc; try (vm_compute in Eq; discriminate Eq) end. }
      assert (Hl : forall l vl, const_tail l = true -> eval_list (fun x => eval n x e) l = Ok vl -> eval_list (fun x => eval n x e') l = Ok vl).
      { induction l as [bl|x _ r' IHr]; intros vl Hcl Hvl; cbn [eval_list const_tail] in *; [exact Hvl|].
        apply andb_true_iff in Hcl. destruct Hcl as [Hx Hr].
        destruct (eval_list (fun x0 => eval n x0 e) r') as [vr| |] eqn:Er; try discriminate.
        rewrite (IHr vr Hr eq_refl).
        destruct (eval n x e) as [vx| |] eqn:Ex; try discriminate.
        rewrite (IH x e e' vx Hx Ex). exact Hvl. }
      destruct (eval_list (fun x => eval n x e) r) as [vs| |] eqn:El; try discriminate.
      rewrite (Hl r vs Hct El). exact H.
    + exact H.
Qed.

(* ---- constant folding ---- *)
Lemma constant_optimizer_sound f r r1 : constant_optimizer opf f r = Done r1 -> sound r r1.
Proof.
  unfold constant_optimizer. intros H.
  assert (Hgen : (if seems_constant r && non_nil r
                  then match eval f r nilv with Ok v => Done (quote v) | Fail => Failed | Oof => OptOof end
                  else Done r) = Done r1 -> sound r r1).
  { destruct (seems_constant r && non_nil r) eqn:Ec; [|intros E; inversion E; apply sound_refl].
    apply andb_true_iff in Ec. destruct Ec as [Hc _].
    destruct (eval f r nilv) as [v0| |] eqn:Ev; try discriminate. intros E; inversion E; subst r1.
    intros e n v Hv. pose proof (const_indep n r e nilv v Hc Hv) as Hn.
    rewrite (eval_det _ _ _ _ _ _ Hn Ev). exists 1%nat. reflexivity. }
  destruct r as [b|[[|[|[p|p|]] [|o2 hb'']]|h1 h2] t]; try exact (Hgen H).
  inversion H; apply sound_refl.
Qed.

(* ---- optimising the operands of an operator call one by one ---- *)
Lemma eval_list_congr : forall xs xs', Forall2 sound xs xs' ->
  forall e n vs, eval_list (fun x => eval n x e) (of_list xs) = Ok vs ->
  exists m, eval_list (fun x => eval m x e) (of_list xs') = Ok vs.
Proof.
  induction 1 as [|x x' r r' Hx Hr IH]; intros e n vs H; cbn [of_list eval_list nilv] in *.
  - exists n. exact H.
  - destruct (eval_list (fun x0 => eval n x0 e) (of_list r)) as [vr| |] eqn:Er; try discriminate.
    destruct (eval n x e) as [vx| |] eqn:Ex; try discriminate. inversion H; subst.
    destruct (IH e n vr Er) as [m1 H1]. destruct (Hx e n vx Ex) as [m2 H2].
    exists (Nat.max m1 m2).
    rewrite (eval_list_mono opf m1 (Nat.max m1 m2) e _ vr (Nat.le_max_l _ _) H1).
    rewrite (eval_mono opf m2 _ _ _ H2 (Nat.max m1 m2) (Nat.le_max_r _ _)). reflexivity.
Qed.

Lemma call_congr op xs xs' : bytes_eqb op quote_atom = false -> Forall2 sound xs xs' ->
  sound (Cons (Atom op) (of_list xs)) (Cons (Atom op) (of_list xs')).
Proof.
  intros Hq HF e n v H. destruct n as [|n]; [discriminate|].
  rewrite eval_S in H. cbv zeta in H. rewrite Hq in H.
  destruct (eval_list (fun x => eval n x e) (of_list xs)) as [vs| |] eqn:El; try discriminate.
  destruct (eval_list_congr xs xs' HF e n vs El) as [m Hm].
  exists (S (Nat.max m n)). rewrite eval_S. cbv zeta. rewrite Hq.
  rewrite (eval_list_mono opf m (Nat.max m n) e _ vs (Nat.le_max_l _ _) Hm).
  destruct (bytes_eqb op apply_atom); [|exact H].
  destruct (args_n 2 vs) as [[|q [|e' [|? ?]]]|]; try discriminate.
  apply (eval_mono opf n _ _ _ H). apply Nat.le_max_r.
Qed.

Lemma opt_map_Forall2 (f : val -> ores) (P : val -> val -> Prop) :
  (forall x x', f x = Done x' -> P x x') ->
  forall l l', opt_map f l = Some (Some l') -> Forall2 P l l'.
Proof.
  intros Hf. induction l as [|x r IH]; intros l' H; cbn [opt_map] in H.
  - inversion H. constructor.
  - destruct (f x) as [x'| |] eqn:Ex; try discriminate.
    destruct (opt_map f r) as [[r'|]|] eqn:Er; try discriminate. inversion H; subst.
    constructor; [apply Hf; exact Ex|apply IH; reflexivity].
Qed.

(* ---- (a (q . call) args): what its evaluation consists of ---- *)
Lemma eval_a_q_inv n call args e v :
  eval n (Cons (Atom [2]) (Cons (Cons (Atom [1]) call) (Cons args nilv))) e = Ok v ->
  exists ea n1 n2, eval n1 args e = Ok ea /\ eval n2 call ea = Ok v.
Proof.
  intros H. destruct n as [|n]; [discriminate|]. rewrite eval_S in H. cbv zeta in H.
  change (bytes_eqb [2] quote_atom) with false in H. cbv iota in H. cbn [eval_list nilv] in H.
  destruct (eval n args e) as [ea| |] eqn:Ea; try discriminate.
  destruct n as [|n']; [discriminate|].
  rewrite (eval_S opf n' (Cons (Atom [1]) call) e) in H. cbv zeta in H.
  change (bytes_eqb [1] quote_atom) with true in H. cbv iota in H.
  change (bytes_eqb [2] apply_atom) with true in H. cbv iota in H. cbn [args_n] in H.
  exists ea, (S n'), (S n'). split; [exact Ea|exact H].
Qed.

Lemma match_a_q_shape r call args : match_a_q r = Some (call, args) ->
  r = Cons (Atom [2]) (Cons (Cons (Atom [1]) call) (Cons args nilv)).
Proof. apply match_a_q_inv. Qed.

Theorem optimize_sound : forall fuel r r', optimize opf fuel r = Done r' -> sound r r'.
Proof.
  induction fuel as [|f IH]; intros r r' H; [discriminate|].
  cbn [optimize] in H. destruct r as [b|h t]; [inversion H; apply sound_refl|].
  cbv zeta in H.
  set (r := Cons h t) in *.
  (* a rule result that differs from r is optimised again *)
  assert (Hstep : forall res, sound r res -> optimize opf f res = Done r' -> sound r r').
  { intros res Hs Ho. exact (sound_trans _ _ _ Hs (IH _ _ Ho)). }
  (* 1. cons *)
  destruct (val_eqb r (cons_optimizer r)) eqn:E1;
    [|apply (Hstep (cons_optimizer r)); [intros e n v; apply cons_optimizer_sound; assumption|exact H]].
  (* 2. constant folding *)
  destruct (constant_optimizer opf f r) as [r1| |] eqn:Ec; try discriminate.
  pose proof (constant_optimizer_sound f r r1 Ec) as Hs1.
  destruct (val_eqb r r1) eqn:E2; [|exact (Hstep r1 Hs1 H)].
  (* 3. (a (q . X) 1) *)
  destruct (val_eqb r (cons_q_a_optimizer r)) eqn:E3;
    [|apply (Hstep (cons_q_a_optimizer r)); [intros e n v; apply cons_q_a_optimizer_sound|exact H]].
  (* 4. variable change *)
  match type of H with (match ?vc with _ => _ end) = _ => destruct vc as [r2| |] eqn:Evc; try discriminate end.
  assert (Hs2 : sound r r2).
  { destruct (match_a_q r) as [[call args]|] eqn:Ma; [|inversion Evc; apply sound_refl].
    match type of Evc with (if ?c then _ else _) = _ => destruct c; [inversion Evc; apply sound_refl|] end.
    assert (Hnew : sound r (sub_args call args)).
    { intros e n v Hv. rewrite (match_a_q_shape r call args Ma) in Hv.
      destruct (eval_a_q_inv n call args e v Hv) as (ea & n1 & n2 & Ha & Hc).
      exact (sub_args_sound opf opf_cons opf_first opf_rest n2 call ea v Hc args e n1 Ha). }
    destruct (seems_constant (sub_args call args)) eqn:Esc; [exact (sound_trans _ _ _ Hnew (IH _ _ Evc))|].
    match type of Evc with (if ?c then _ else _) = _ => destruct c eqn:Eph; [inversion Evc; apply sound_refl|] end.
    destruct (to_list (sub_args call args)) as [operands|] eqn:Etl; [|inversion Evc; apply sound_refl].
    destruct (opt_map (optimize opf f) operands) as [[opt_operands|]|] eqn:Eom; try discriminate.
    destruct (existsb non_constant_operand opt_operands); inversion Evc; subst r2; [apply sound_refl|].
    apply (sound_trans _ _ _ Hnew).
    rewrite (of_list_to_list _ _ Etl).
    pose proof (opt_map_Forall2 (optimize opf f) sound IH operands opt_operands Eom) as HF.
    (* the head of the substituted form is an operator atom other than quote *)
    destruct operands as [|hd xs]; [inversion HF; apply sound_refl|].
    inversion HF as [|? hd' ? xs' Hhd Hxs]; subst.
    assert (Hsub : sub_args call args = Cons hd (of_list xs)) by (rewrite (of_list_to_list _ _ Etl); reflexivity).
    destruct hd as [op|hx ht].
    - assert (Hhd' : hd' = Atom op).
      { apply opt_map_Forall2 with (P := fun x x' => optimize opf f x = Done x') in Eom; [|auto].
        inversion Eom; subst. destruct f; [discriminate|]. match goal with E : optimize opf (S _) (Atom op) = Done _ |- _ => cbn in E; inversion E; reflexivity end. }
      subst hd'. cbn [of_list]. apply call_congr; [|exact Hxs].
      (* not the quote atom: otherwise the form would have been a constant *)
      destruct (bytes_eqb op quote_atom) eqn:Eq; [|reflexivity].
      apply bytes_eqb_eq in Eq. subst op. rewrite Hsub in Esc. rewrite seems_constant_cons in Esc. discriminate.
    - (* a pair in head position: excluded by the guard *)
      rewrite Hsub in Eph. vm_compute in Eph. discriminate Eph. }
  destruct (val_eqb r r2) eqn:E4; [|exact (Hstep r2 Hs2 H)].
  (* 5. children *)
  match type of H with (match ?ch with _ => _ end) = _ => destruct ch as [r3| |] eqn:Ech; try discriminate end.
  assert (Hs3 : sound r r3).
  { destruct (to_list r) as [items|] eqn:Etl; [|inversion Ech; apply sound_refl].
    destruct items as [|hd xs]; [inversion Ech; apply sound_refl|].
    assert (Hr : r = Cons hd (of_list xs)) by (rewrite (of_list_to_list _ _ Etl); reflexivity).
    destruct hd as [op|hx ht].
    - assert (Hcase : bytes_eqb op quote_atom = true /\ r3 = r \/
                      bytes_eqb op quote_atom = false /\ exists items', opt_map (optimize opf f) (Atom op :: xs) = Some (Some items') /\ r3 = of_list items').
      { destruct op as [|[|[p|p|]] [|o2 hb]]; cbn in Ech |- *;
          try (right; split; [reflexivity|];
               match type of Ech with match ?m with _ => _ end = _ => destruct m as [[items'|]|] eqn:Em; try discriminate end;
               inversion Ech; subst; exists items'; split; [reflexivity|reflexivity]).
        left. split; [reflexivity|]. inversion Ech. reflexivity. }
      destruct Hcase as [[_ ->]|[Hq (items' & Eom & ->)]]; [apply sound_refl|].
      pose proof (opt_map_Forall2 (optimize opf f) sound IH _ _ Eom) as HF.
      inversion HF as [|? hd' ? xs' Hhd Hxs]; subst.
      assert (Hhd' : hd' = Atom op).
      { apply opt_map_Forall2 with (P := fun x x' => optimize opf f x = Done x') in Eom; [|auto].
        inversion Eom; subst. destruct f; [discriminate|]. match goal with E : optimize opf (S _) (Atom op) = Done _ |- _ => cbn in E; inversion E; reflexivity end. }
      subst hd'. rewrite Hr. cbn [of_list]. apply call_congr; assumption.
    - change OPT_PAIR_HEAD_OPAQUE with true in Ech. inversion Ech. apply sound_refl. }
  destruct (val_eqb r r3) eqn:E5; [|exact (Hstep r3 Hs3 H)].
  (* 6-8. path, quote null, apply null *)
  destruct (val_eqb r (path_optimizer r)) eqn:E6;
    [|apply (Hstep (path_optimizer r)); [intros e n v; apply path_optimizer_sound; assumption|exact H]].
  destruct (val_eqb r (quote_null_optimizer r)) eqn:E7;
    [|apply (Hstep (quote_null_optimizer r)); [intros e n v; apply quote_null_optimizer_sound|exact H]].
  destruct (val_eqb r (apply_null_optimizer r)) eqn:E8;
    [|apply (Hstep (apply_null_optimizer r)); [intros e n v; apply apply_null_optimizer_sound|exact H]].
  inversion H. apply sound_refl.
Qed.
End Sound.
