(* Soundness of sub_args, the substitution behind the optimiser's variable-change rule
   (a (q . SEXP) ARGS) => SEXP with every environment path replaced by the matching selection from ARGS:
   whenever ARGS evaluates to ea and SEXP evaluates in ea to v, the substituted expression evaluates to v in the
   original environment. The path atoms are read as the generated switches say (Gen/Consts.v): the rule in which
   D2 (signed read, zero path = whole arguments) and D13b/D16 (pair heads) lived. *)
From CV Require Import Base.Prelude Base.Val Base.Bytes Gen.Consts Clvm.Path Clvm.Eval Opt.ClassicOpt Opt.ClassicOptProofs.

Fixpoint sub_list (t a : val) : option val :=
  match t with
  | Atom [] => Some nilv
  | Atom _ => None
  | Cons x r => match sub_list r a with Some t' => Some (Cons (sub_args x a) t') | None => None end
  end.

Definition sub_continue (sexp first rest a : val) : val :=
  match sub_list rest a with Some tail => Cons first tail | None => path_from_args sexp a end.

Lemma sub_args_inner_fix rest a :
  (fix sl (t : val) : option val :=
     match t with
     | Atom [] => Some nilv
     | Atom _ => None
     | Cons x r => match sl r with Some t' => Some (Cons (sub_args x a) t') | None => None end
     end) rest = sub_list rest a.
Proof. induction rest as [b|x IHx r IHr]; [reflexivity|]. cbn [sub_list]. rewrite <- IHr. reflexivity. Qed.

Lemma sub_args_atom_head op rest a : bytes_eqb op [1] = false ->
  sub_args (Cons (Atom op) rest) a = sub_continue (Cons (Atom op) rest) (Atom op) rest a.
Proof.
  intros H. unfold sub_continue. rewrite <- sub_args_inner_fix.
  destruct op as [|o r]; [reflexivity|].
  destruct o as [|p]; [reflexivity|].
  destruct p as [p|p|]; try reflexivity.
  destruct r as [|o2 r2]; [discriminate H|reflexivity].
Qed.

Lemma sub_args_quote rest a : sub_args (Cons (Atom [1]) rest) a = Cons (Atom [1]) rest.
Proof. reflexivity. Qed.

Lemma sub_args_pair_head x t rest a : sub_args (Cons (Cons x t) rest) a = Cons (Cons x t) rest.
Proof. cbn [sub_args]. change OPT_PAIR_HEAD_OPAQUE with true. reflexivity. Qed.

Lemma eval_list_mono opf n m e l vs : (n <= m)%nat ->
  eval_list (fun x => eval opf n x e) l = Ok vs -> eval_list (fun x => eval opf m x e) l = Ok vs.
Proof.
  intros Hle. revert vs. induction l as [b|x _ r IHr]; intros vs H; cbn [eval_list] in *; [exact H|].
  destruct (eval_list (fun x0 => eval opf n x0 e) r) as [vr| |] eqn:Er; try discriminate.
  rewrite (IHr vr eq_refl).
  destruct (eval opf n x e) as [vx| |] eqn:Ex; try discriminate.
  rewrite (eval_mono opf n _ _ _ Ex m Hle). exact H.
Qed.

Section SubArgs.
Variable opf : bytes -> val -> option val.
Hypothesis opf_cons : forall a b, opf [4] (Cons a (Cons b nilv)) = Some (Cons a b).
Hypothesis opf_first : forall x, opf [5] (Cons x nilv) = match x with Cons a _ => Some a | Atom _ => None end.
Hypothesis opf_rest : forall x, opf [6] (Cons x nilv) = match x with Cons _ b => Some b | Atom _ => None end.
Notation eval := (eval opf).

Lemma eval_op1_intro n op x e vx v : bytes_eqb op quote_atom = false -> bytes_eqb op apply_atom = false ->
  eval n x e = Ok vx -> opf op (Cons vx nilv) = Some v -> eval (S n) (Cons (Atom op) (Cons x nilv)) e = Ok v.
Proof. intros Hq Ha Hx Ho. rewrite eval_S. cbv zeta. rewrite Hq, Ha. cbn [eval_list nilv]. rewrite Hx, Ho. reflexivity. Qed.

(* (f A) / (r A), or the component itself when A is a cons form *)
Lemma cons_f_sound n A e a b : eval n A e = Ok (Cons a b) -> exists m, eval m (cons_f A) e = Ok a.
Proof.
  intros H. unfold cons_f. destruct (match_cons A) as [[f s]|] eqn:M.
  - apply match_cons_inv in M. subst A. destruct n as [|n]; [discriminate|].
    destruct (eval_op2 opf n [4] _ _ e _ eq_refl eq_refl H) as (vf & vs & Hf & Hs & Hc).
    rewrite opf_cons in Hc. inversion Hc; subst. exists n. exact Hf.
  - exists (S n). apply (eval_op1_intro n [5] A e (Cons a b) a eq_refl eq_refl H). rewrite opf_first. reflexivity.
Qed.
Lemma cons_r_sound n A e a b : eval n A e = Ok (Cons a b) -> exists m, eval m (cons_r A) e = Ok b.
Proof.
  intros H. unfold cons_r. destruct (match_cons A) as [[f s]|] eqn:M.
  - apply match_cons_inv in M. subst A. destruct n as [|n]; [discriminate|].
    destruct (eval_op2 opf n [4] _ _ e _ eq_refl eq_refl H) as (vf & vs & Hf & Hs & Hc).
    rewrite opf_cons in Hc. inversion Hc; subst. exists n. exact Hs.
  - exists (S n). apply (eval_op1_intro n [6] A e (Cons a b) b eq_refl eq_refl H). rewrite opf_rest. reflexivity.
Qed.

Lemma path_from_pos_sound : forall p A e n ea v,
  eval n A e = Ok ea -> traverse_pos p ea = Ok v -> exists m, eval m (path_from_pos p A) e = Ok v.
Proof.
  induction p as [q IH|q IH|]; intros A e n ea v HA Ht; cbn [path_from_pos traverse_pos] in *.
  - destruct ea as [|a b]; [discriminate|]. destruct (cons_r_sound n A e a b HA) as [m Hm]. exact (IH _ e m b v Hm Ht).
  - destruct ea as [|a b]; [discriminate|]. destruct (cons_f_sound n A e a b HA) as [m Hm]. exact (IH _ e m a v Hm Ht).
  - inversion Ht; subst. exists n. exact HA.
Qed.

Lemma path_from_args_atom_sound b A e n ea v :
  eval n A e = Ok ea -> traverse b ea = Ok v -> exists m, eval m (path_from_args (Atom b) A) e = Ok v.
Proof.
  intros HA Ht. unfold path_from_args, read_path_args. change OPT_PATH_ARGS_SIGNED with false. cbv iota.
  unfold traverse in Ht. destruct (be_unsigned b) as [|p] eqn:Eb; cbn [Z.of_N traverse_N] in *.
  - change OPT_PATH_ARGS_ZERO_WHOLE with false. cbv iota. exists 1%nat. cbn [Eval.eval]. unfold traverse. rewrite Eb. exact Ht.
  - exact (path_from_pos_sound p A e n ea v HA Ht).
Qed.

Theorem sub_args_sound : forall n s ea v, eval n s ea = Ok v ->
  forall a e na, eval na a e = Ok ea -> exists m, eval m (sub_args s a) e = Ok v.
Proof.
  induction n as [|n IH]; intros s ea v H a e na Ha; [discriminate|].
  destruct s as [b|[op|x t] rest].
  - (* a path *)
    change (sub_args (Atom b) a) with (path_from_args (Atom b) a).
    rewrite eval_S in H. exact (path_from_args_atom_sound b a e na ea v Ha H).
  - destruct (bytes_eqb op [1]) eqn:Eq.
    + (* quoted data is left alone and does not look at the environment *)
      apply bytes_eqb_eq in Eq. subst op. rewrite sub_args_quote. exists 1%nat.
      rewrite eval_S in H |- *. exact H.
    + rewrite sub_args_atom_head by exact Eq. unfold sub_continue.
      rewrite eval_S in H. cbv zeta in H. change quote_atom with [1] in H. rewrite Eq in H.
      destruct (eval_list (fun x => eval n x ea) rest) as [vs| |] eqn:El; try discriminate.
      (* the operand list: every operand of the substituted list evaluates, in e, to the value the original had in ea *)
      assert (Hl : forall l vl, eval_list (fun x => eval n x ea) l = Ok vl ->
                exists tail M, sub_list l a = Some tail /\ eval_list (fun x => eval M x e) tail = Ok vl).
      { induction l as [bl|x IHx r IHr]; intros vl Hvl; cbn [eval_list sub_list] in *.
        - destruct bl; [|discriminate]. inversion Hvl; subst. exists nilv, 0%nat. split; reflexivity.
        - destruct (eval_list (fun x0 => eval n x0 ea) r) as [vr| |] eqn:Er; try discriminate.
          destruct (eval n x ea) as [vx| |] eqn:Ex; try discriminate. inversion Hvl; subst.
          destruct (IHr vr eq_refl) as (tail & M & Hs & Ht). rewrite Hs.
          destruct (IH x ea vx Ex a e na Ha) as [m Hm].
          exists (Cons (sub_args x a) tail), (Nat.max M m). split; [reflexivity|]. cbn [eval_list].
          rewrite (eval_list_mono opf M (Nat.max M m) e tail vr (Nat.le_max_l _ _) Ht).
          rewrite (eval_mono opf m _ _ _ Hm (Nat.max M m) (Nat.le_max_r _ _)). reflexivity. }
      destruct (Hl rest vs El) as (tail & M & Hs & Ht). rewrite Hs.
      exists (S (Nat.max M n)). rewrite eval_S. cbv zeta. change quote_atom with [1]. rewrite Eq.
      rewrite (eval_list_mono opf M (Nat.max M n) e tail vs (Nat.le_max_l _ _) Ht).
      destruct (bytes_eqb op apply_atom); [|exact H].
      destruct (args_n 2 vs) as [[|q [|e' [|? ?]]]|]; try discriminate.
      apply (eval_mono opf n _ _ _ H). apply Nat.le_max_r.
  - (* ((X) . args): the operands are passed unevaluated, nothing depends on the environment *)
    rewrite sub_args_pair_head. exists (S n). rewrite eval_S in H |- *. exact H.
Qed.
End SubArgs.
