(* Soundness of the classic optimiser's path rule  (f P) => P+first , (r P) => P+rest  for path atoms P,
   with the path read as the generated switches say (Gen/Consts.v OPT_PATH_OPT_SIGNED): this is the rule in
   which D3 lived (a signed read collapsed all-ones paths). *)
From CV Require Import Base.Prelude Base.Val Base.Bytes Base.NLemmas Gen.Consts Clvm.Path Clvm.NodePath Clvm.Eval Opt.ClassicOpt Opt.ClassicOptProofs.

(* ---- big-endian digits read back ---- *)
Lemma be_acc_app acc a b : be_acc acc (a ++ b) = be_acc (be_acc acc a) b.
Proof. revert acc; induction a as [|x r IH]; intros acc; cbn; [reflexivity|apply IH]. Qed.

Lemma be_acc_shift : forall b acc, be_acc acc b = acc * 256 ^ N.of_nat (length b) + be_acc 0 b.
Proof.
  induction b as [|x r IH]; intros acc; cbn [be_acc length].
  - cbn. lia.
  - rewrite (IH (acc * 256 + x)), (IH (0 * 256 + x)). rewrite Nat2N.inj_succ, N.pow_succ_r'. lia.
Qed.

Lemma be_digits_pos_spec : forall fuel n acc, (N.to_nat (N.size n) < fuel)%nat ->
  be_unsigned (be_digits_pos fuel n acc) = n * 256 ^ N.of_nat (length acc) + be_unsigned acc.
Proof.
  induction fuel as [|f IH]; intros n acc Hf; [lia|].
  cbn [be_digits_pos]. destruct (N.eqb_spec n 0) as [->|Hn]; [cbn; lia|].
  rewrite IH.
  - cbn [length]. unfold be_unsigned. cbn [be_acc]. rewrite be_acc_shift. rewrite land_255, shiftr_div.
    rewrite Nat2N.inj_succ, N.pow_succ_r'. change (2 ^ 8) with 256.
    pose proof (N.div_mod n 256 ltac:(lia)) as Hd. nia.
  - assert (N.size (N.shiftr n 8) < N.size n); [|lia].
    destruct (N.eq_dec (N.shiftr n 8) 0) as [E|E]; [rewrite E; cbn; destruct n; [lia|cbn; lia]|].
    rewrite !N.size_log2 by assumption. apply -> N.succ_lt_mono.
    rewrite N.log2_shiftr.
    assert (8 <= N.log2 n); [|lia].
    destruct (N.le_gt_cases 8 (N.log2 n)) as [Hle|Hgt]; [exact Hle|exfalso].
    apply E. apply N.shiftr_eq_0. exact Hgt.
Qed.

Lemma be_unsigned_be_digits n : be_unsigned (be_digits n) = n.
Proof. unfold be_digits. rewrite be_digits_pos_spec by lia. cbn. lia. Qed.

(* ---- the Z-valued compose_paths of node_path.rs is the N-valued one of Clvm/NodePath.v ---- *)
Lemma inj_shiftr1 t : Z.shiftr (Z.of_N t) 1 = Z.of_N (N.shiftr t 1).
Proof. rewrite Z.shiftr_div_pow2 by lia. rewrite shiftr_div. rewrite N2Z.inj_div. reflexivity. Qed.
Lemma inj_shiftl1 t : Z.shiftl (Z.of_N t) 1 = Z.of_N (N.shiftl t 1).
Proof. rewrite Z.shiftl_mul_pow2 by lia. rewrite shiftl_mul. rewrite N2Z.inj_mul. reflexivity. Qed.
Lemma inj_land a b : Z.land (Z.of_N a) (Z.of_N b) = Z.of_N (N.land a b).
Proof.
  apply Z.bits_inj'. intros n Hn. rewrite Z.land_spec. rewrite <- (Z2N.id n Hn). rewrite !N2Z.inj_testbit. rewrite N.land_spec. reflexivity.
Qed.
Lemma inj_lor a b : Z.lor (Z.of_N a) (Z.of_N b) = Z.of_N (N.lor a b).
Proof.
  apply Z.bits_inj'. intros n Hn. rewrite Z.lor_spec. rewrite <- (Z2N.id n Hn). rewrite !N2Z.inj_testbit. rewrite N.lor_spec. reflexivity.
Qed.

Lemma cp_loop_ZN : forall fuel t a m,
  cp_loop fuel (Z.of_N t) (Z.of_N a) (Z.of_N m) =
  (Z.of_N (fst (cp_loop_n fuel t a m)), Z.of_N (snd (cp_loop_n fuel t a m))).
Proof.
  induction fuel as [|f IH]; intros t a m; cbn [cp_loop cp_loop_n]; [reflexivity|].
  assert (Hlt : (1 <? Z.of_N t)%Z = (1 <? t)).
  { destruct (N.ltb_spec 1 t) as [L|L]; [apply Z.ltb_lt; lia|apply Z.ltb_ge; lia]. }
  rewrite Hlt. destruct (1 <? t); [|reflexivity].
  rewrite inj_shiftr1, !inj_shiftl1. apply IH.
Qed.

Lemma log2_plen p : Z.log2 (Zpos p) = Z.of_nat (plen p).
Proof.
  apply Z.log2_unique; [lia|].
  pose proof (plen_bounds p) as [Hlo Hhi].
  assert (Hlo' : (Z.of_N (2 ^ N.of_nat (plen p)) <= Z.of_N (Npos p))%Z) by lia.
  assert (Hhi' : (Z.of_N (Npos p) < Z.of_N (2 ^ N.of_nat (S (plen p))))%Z) by lia.
  rewrite N2Z.inj_pow in Hlo', Hhi'. rewrite nat_N_Z in Hlo', Hhi'. rewrite Nat2Z.inj_succ in Hhi'.
  cbn [Z.of_N] in Hlo', Hhi'. split; [exact Hlo'|]. replace (Z.of_nat (plen p) + 1)%Z with (Z.succ (Z.of_nat (plen p))) by lia. exact Hhi'.
Qed.

Lemma compose_paths_ZN p q : compose_paths (Zpos p) (Zpos q) = Z.of_N (compose_paths_n (Npos p) (Npos q)).
Proof.
  unfold compose_paths, compose_paths_n.
  change (Zpos p) with (Z.of_N (Npos p)) at 2 3. change (Zpos q) with (Z.of_N (Npos q)). change 1%Z with (Z.of_N 1).
  rewrite cp_loop_ZN.
  rewrite !cp_loop_spec; [| apply plen_size | rewrite log2_plen, Nat2Z.id; lia].
  cbn [fst snd].
  set (k := N.of_nat (plen p)).
  assert (Hm : 1 <= N.shiftl 1 k).
  { rewrite N.shiftl_1_l. pose proof (N.pow_nonzero 2 k ltac:(lia)). lia. }
  replace (Z.of_N (N.shiftl 1 k) - Z.of_N 1)%Z with (Z.of_N (N.shiftl 1 k - 1)) by lia.
  rewrite inj_land, inj_lor. reflexivity.
Qed.

Section PathRule.
Variable opf : bytes -> val -> option val.
Hypothesis opf_first : forall x, opf [5] (Cons x nilv) = match x with Cons a _ => Some a | Atom _ => None end.
Hypothesis opf_rest : forall x, opf [6] (Cons x nilv) = match x with Cons _ b => Some b | Atom _ => None end.
Notation eval := (eval opf).

Lemma eval_path n b e : eval (S n) (Atom b) e = traverse b e.
Proof. reflexivity. Qed.

(* (f P) / (r P) with P a path atom: the composed path selects the same value whenever the original returns one *)
Theorem path_optimizer_sound r e n v :
  eval n r e = Ok v -> exists m, eval m (path_optimizer r) e = Ok v.
Proof.
  intros H. unfold path_optimizer.
  assert (Hid : exists m, eval m r e = Ok v) by (exists n; exact H).
  assert (Hcase : forall (op step : N) b (stepp : positive), (op = 5 /\ stepp = 2%positive) \/ (op = 6 /\ stepp = 3%positive) ->
            r = Cons (Atom [op]) (Cons (Atom b) nilv) ->
            exists m, eval m (Atom (nodepath_as_path (nodepath_add (nodepath_new (read_path_opt b)) (Zpos stepp)))) e = Ok v).
  { intros op step b stepp Hop ->.
    destruct n as [|n]; [discriminate|].
    assert (Hq : bytes_eqb [op] quote_atom = false) by (destruct Hop as [[-> _]|[-> _]]; reflexivity).
    assert (Ha : bytes_eqb [op] apply_atom = false) by (destruct Hop as [[-> _]|[-> _]]; reflexivity).
    destruct (eval_op1 opf n [op] _ e v Hq Ha H) as (vx & Hx & Hopf).
    destruct n as [|n]; [discriminate|]. rewrite eval_path in Hx.
    unfold traverse in Hx. unfold read_path_opt. change OPT_PATH_OPT_SIGNED with false. cbv iota.
    destruct (be_unsigned b) as [|p] eqn:Eb.
    - (* the nil path: (f ()) and (r ()) fail, nothing to show *)
      cbn in Hx. inversion Hx; subst vx.
      destruct Hop as [[-> _]|[-> _]]; [rewrite opf_first in Hopf|rewrite opf_rest in Hopf]; discriminate.
    - cbn [traverse_N] in Hx. exists 1%nat. rewrite eval_path. unfold traverse.
      unfold nodepath_add, nodepath_new, nodepath_as_path, bigint_to_bytes_unsigned. cbn [Z.of_N].
      change (Z.pos p <? 0)%Z with false. cbv iota.
      rewrite compose_paths_ZN, compose_paths_spec. cbn [Z.of_N]. change (Z.pos (papp p stepp) <? 0)%Z with false. cbv iota.
      cbn [Z.to_N]. rewrite be_unsigned_be_digits. cbn [traverse_N]. rewrite traverse_papp, Hx. cbn [res_bind].
      destruct Hop as [[-> ->]|[-> ->]]; [rewrite opf_first in Hopf|rewrite opf_rest in Hopf];
        destruct vx as [|va vb]; try discriminate; inversion Hopf; subst; reflexivity. }
  destruct (match_op1 5 r) as [x|] eqn:M5.
  - destruct x as [b|x1 x2].
    + apply match_op1_inv in M5. apply (Hcase 5 2 b 2%positive); [left; split; reflexivity|exact M5].
    + destruct (match_op1 6 r) as [y|] eqn:M6; [|exact Hid].
      apply match_op1_inv in M5. apply match_op1_inv in M6. rewrite M5 in M6. discriminate.
  - destruct (match_op1 6 r) as [y|] eqn:M6; [|exact Hid].
    destruct y as [b|y1 y2]; [|exact Hid].
    apply match_op1_inv in M6. apply (Hcase 6 3 b 3%positive); [right; split; reflexivity|exact M6].
Qed.
End PathRule.
