(* Soundness of rewrite rules of the classic optimiser with respect to the consensus evaluation
   relation, for any operator oracle in which c / f / r are cons / first / rest. *)
From CV Require Import Base.Prelude Base.Val Base.Bytes Clvm.Path Clvm.Eval Clvm.Ops Opt.ClassicOpt.

Section Sound.
Variable opf : bytes -> val -> option val.
Hypothesis opf_cons : forall a b, opf [4] (Cons a (Cons b nilv)) = Some (Cons a b).
Hypothesis opf_first : forall x, opf [5] (Cons x nilv) = match x with Cons a _ => Some a | Atom _ => None end.
Hypothesis opf_rest : forall x, opf [6] (Cons x nilv) = match x with Cons _ b => Some b | Atom _ => None end.

Notation eval := (eval opf).

Lemma eval_S n p e : eval (S n) p e =
  let apply (op : bytes) (operands : val) : res val :=
    if bytes_eqb op apply_atom then
      match args_n 2 operands with Some [q; e'] => eval n q e' | _ => Fail end
    else match opf op operands with Some v => Ok v | None => Fail end in
  match p with
  | Atom b => traverse b e
  | Cons (Atom op) args =>
      if bytes_eqb op quote_atom then Ok args
      else match eval_list (fun x => eval n x e) args with
           | Ok vs => apply op vs | Fail => Fail | Oof => Oof end
  | Cons (Cons x t) args =>
      match x, t with Atom opx, Atom _ => apply opx args | _, _ => Fail end
  end.
Proof. reflexivity. Qed.

Lemma eval_mono : forall n p e v, eval n p e = Ok v -> forall m, (n <= m)%nat -> eval m p e = Ok v.
Proof.
  induction n as [|n IH]; intros p e v H m Hm; [discriminate|].
  destruct m as [|m]; [lia|]. rewrite eval_S in *. cbv zeta in *.
  assert (Hl : forall args vs, eval_list (fun x => eval n x e) args = Ok vs ->
                               eval_list (fun x => eval m x e) args = Ok vs).
  { induction args as [b|x _ r IHr]; intros vs Hv; cbn [eval_list] in *; [exact Hv|].
    destruct (eval_list (fun x0 => eval n x0 e) r) as [vr| |] eqn:Er; try discriminate.
    rewrite (IHr vr eq_refl).
    destruct (eval n x e) as [vx| |] eqn:Ex; try discriminate.
    rewrite (IH _ _ _ Ex m) by lia. exact Hv. }
  assert (Ha : forall op operands,
     (if bytes_eqb op apply_atom then match args_n 2 operands with Some [q; e'] => eval n q e' | _ => Fail end
      else match opf op operands with Some v0 => Ok v0 | None => Fail end) = Ok v ->
     (if bytes_eqb op apply_atom then match args_n 2 operands with Some [q; e'] => eval m q e' | _ => Fail end
      else match opf op operands with Some v0 => Ok v0 | None => Fail end) = Ok v).
  { intros op operands. destruct (bytes_eqb op apply_atom); [|auto].
    destruct (args_n 2 operands) as [[|q [|e' [|? ?]]]|]; try discriminate.
    intros Hq. apply (IH _ _ _ Hq). lia. }
  destruct p as [b|[op|x t] args].
  - exact H.
  - destruct (bytes_eqb op quote_atom); [exact H|].
    destruct (eval_list (fun x => eval n x e) args) as [vs| |] eqn:El; try discriminate.
    rewrite (Hl _ _ El). apply Ha. exact H.
  - destruct x as [opx|x1 x2]; [|discriminate H]. destruct t as [tb|t1 t2]; [|discriminate H]. apply Ha. exact H.
Qed.

(* shape of the evaluation of a one-operand and a two-operand operator call *)
Lemma eval_op1 n op x e v : bytes_eqb op quote_atom = false -> bytes_eqb op apply_atom = false ->
  eval (S n) (Cons (Atom op) (Cons x nilv)) e = Ok v ->
  exists vx, eval n x e = Ok vx /\ opf op (Cons vx nilv) = Some v.
Proof.
  intros Hq Ha. rewrite eval_S. cbv zeta. rewrite Hq, Ha. cbn [eval_list nilv].
  destruct (eval n x e) as [vx| |]; try discriminate.
  destruct (opf op (Cons vx nilv)) as [v0|] eqn:E; [|discriminate].
  intros H; inversion H; subst. exists vx. split; [reflexivity|exact E].
Qed.

Lemma eval_op2 n op x y e v : bytes_eqb op quote_atom = false -> bytes_eqb op apply_atom = false ->
  eval (S n) (Cons (Atom op) (Cons x (Cons y nilv))) e = Ok v ->
  exists vx vy, eval n x e = Ok vx /\ eval n y e = Ok vy /\ opf op (Cons vx (Cons vy nilv)) = Some v.
Proof.
  intros Hq Ha. rewrite eval_S. cbv zeta. rewrite Hq, Ha. cbn [eval_list nilv].
  destruct (eval n y e) as [vy| |]; try discriminate.
  destruct (eval n x e) as [vx| |]; try discriminate.
  destruct (opf op (Cons vx (Cons vy nilv))) as [v0|] eqn:E; [|discriminate].
  intros H; inversion H; subst. exists vx, vy. repeat split; try reflexivity. exact E.
Qed.

Ltac destr H := repeat match type of H with context [match ?x with _ => _ end] =>
                          destruct x eqn:?; try discriminate H end.

Lemma match_op1_inv op r x : match_op1 op r = Some x -> r = Cons (Atom [op]) (Cons x nilv).
Proof.
  unfold match_op1. intros H. destr H. inversion H; subst.
  match goal with E : (_ =? _) = true |- _ => apply N.eqb_eq in E; subst end. reflexivity.
Qed.
Lemma match_cons_inv r f s : match_cons r = Some (f, s) -> r = Cons (Atom [4]) (Cons f (Cons s nilv)).
Proof.
  unfold match_cons. intros H. destr H. inversion H; subst.
  match goal with E : (_ =? _) = true |- _ => apply N.eqb_eq in E; subst end. reflexivity.
Qed.
Lemma match_a_q_inv r s a : match_a_q r = Some (s, a) ->
  r = Cons (Atom [2]) (Cons (Cons (Atom [1]) s) (Cons a nilv)).
Proof.
  unfold match_a_q. intros H. destr H. inversion H; subst.
  match goal with E : (_ && _) = true |- _ => apply andb_true_iff in E; destruct E as [E1 E2];
    apply N.eqb_eq in E1, E2; subst end. reflexivity.
Qed.

(* (f (c A B)) => A   and   (r (c A B)) => B *)
Theorem cons_optimizer_sound r e n v :
  eval n r e = Ok v -> exists m, eval m (cons_optimizer r) e = Ok v.
Proof.
  intros H. unfold cons_optimizer.
  assert (Hid : exists m, eval m r e = Ok v) by (exists n; exact H).
  assert (Lf : forall x f s, match_op1 5 r = Some x -> match_cons x = Some (f, s) -> exists m, eval m f e = Ok v).
  { intros x f s M1 M2. apply match_op1_inv in M1. apply match_cons_inv in M2. subst r x.
    destruct n as [|n]; [discriminate|].
    destruct (eval_op1 n [5] _ e v eq_refl eq_refl H) as (vx & Hx & Hop).
    destruct n as [|n]; [discriminate|].
    destruct (eval_op2 n [4] _ _ e vx eq_refl eq_refl Hx) as (va & vb & Ha & Hb & Hc).
    rewrite opf_cons in Hc. inversion Hc; subst vx. rewrite opf_first in Hop. inversion Hop; subst.
    exists n. exact Ha. }
  assert (Lr : forall x f s, match_op1 6 r = Some x -> match_cons x = Some (f, s) -> exists m, eval m s e = Ok v).
  { intros x f s M1 M2. apply match_op1_inv in M1. apply match_cons_inv in M2. subst r x.
    destruct n as [|n]; [discriminate|].
    destruct (eval_op1 n [6] _ e v eq_refl eq_refl H) as (vx & Hx & Hop).
    destruct n as [|n]; [discriminate|].
    destruct (eval_op2 n [4] _ _ e vx eq_refl eq_refl Hx) as (va & vb & Ha & Hb & Hc).
    rewrite opf_cons in Hc. inversion Hc; subst vx. rewrite opf_rest in Hop. inversion Hop; subst.
    exists n. exact Hb. }
  destruct (match_op1 5 r) as [x|] eqn:M5.
  - destruct (match_cons x) as [[f s]|] eqn:Mc; [eapply Lf; eauto|].
    destruct (match_op1 6 r) as [y|] eqn:M6; [|exact Hid].
    destruct (match_cons y) as [[f s]|] eqn:Mc'; [eapply Lr; eauto|exact Hid].
  - destruct (match_op1 6 r) as [y|] eqn:M6; [|exact Hid].
    destruct (match_cons y) as [[f s]|] eqn:Mc'; [eapply Lr; eauto|exact Hid].
Qed.

(* (a (q . SEXP) 1) => SEXP *)
Theorem cons_q_a_optimizer_sound r e n v :
  eval n r e = Ok v -> exists m, eval m (cons_q_a_optimizer r) e = Ok v.
Proof.
  intros H. unfold cons_q_a_optimizer.
  destruct (match_a_q r) as [[s a]|] eqn:M; [|exists n; exact H].
  destruct (is_atom1 a 1) eqn:Ia; [|exists n; exact H].
  apply match_a_q_inv in M. subst r.
  destruct a as [[|y [|? ?]]|]; try discriminate. cbn in Ia. apply N.eqb_eq in Ia. subst y.
  destruct n as [|n]; [discriminate|]. rewrite eval_S in H. cbv zeta in H.
  change (bytes_eqb [2] quote_atom) with false in H. cbv iota in H.
  cbn [eval_list nilv] in H.
  destruct n as [|n]; [discriminate|].
  rewrite (eval_S n (Atom [1]) e) in H. cbv zeta in H.
  change (traverse [1] e) with (Ok e) in H.
  rewrite (eval_S n (Cons (Atom [1]) s) e) in H. cbv zeta in H.
  change (bytes_eqb [1] quote_atom) with true in H. cbv iota in H.
  change (bytes_eqb [2] apply_atom) with true in H. cbv iota in H.
  cbn [args_n] in H. exists (S n). exact H.
Qed.

(* (q . 0) => 0   and   (a 0 . REST) => 0  *)
Theorem quote_null_optimizer_sound r e n v :
  eval n r e = Ok v -> exists m, eval m (quote_null_optimizer r) e = Ok v.
Proof.
  intros H. unfold quote_null_optimizer.
  assert (Hid : exists m, eval m r e = Ok v) by (exists n; exact H).
  repeat match goal with |- context [match ?x with _ => _ end] => destruct x eqn:?; try exact Hid end.
  match goal with E : (_ =? _) = true |- _ => apply N.eqb_eq in E; subst end.
  destruct n as [|n]; [discriminate|]. rewrite eval_S in H. cbv zeta in H.
  change (bytes_eqb [1] quote_atom) with true in H. cbv iota in H. inversion H; subst.
  exists 1%nat. reflexivity.
Qed.

Theorem apply_null_optimizer_sound r e n v :
  eval n r e = Ok v -> exists m, eval m (apply_null_optimizer r) e = Ok v.
Proof.
  intros H. assert (Hid : exists m, eval m r e = Ok v) by (exists n; exact H).
  unfold apply_null_optimizer.
  destruct r as [rb|h t]; [exact Hid|].
  destruct h as [hb|h1 h2]; [|exact Hid].
  destruct hb as [|o hb']; [exact Hid|]. destruct hb' as [|o' hb'']; [|exact Hid].
  destruct t as [tb|z rest]; [exact Hid|].
  destruct z as [zb|z1 z2]; [|exact Hid]. destruct zb as [|zz zb']; [|exact Hid].
  destruct (N.eqb_spec o 2) as [->|Hne]; [|exact Hid].
  (* (a 0 . rest): when it evaluates, rest is a one-element list and the result is nil *)
  destruct n as [|n]; [discriminate|]. rewrite eval_S in H. cbv zeta in H.
  change (bytes_eqb [2] quote_atom) with false in H. cbv iota in H.
  cbn [eval_list] in H.
  destruct (eval_list (fun x => eval n x e) rest) as [vr| |] eqn:Er; try discriminate.
  destruct n as [|n]; [cbn in H; discriminate|].
  rewrite (eval_S n (Atom []) e) in H. cbv zeta in H. change (traverse [] e) with (Ok nilv) in H.
  change (bytes_eqb [2] apply_atom) with true in H. cbv iota in H.
  cbn [args_n] in H. destruct vr as [|e' t]; [discriminate|].
  destruct t as [tb|t1 t2]; cbn [args_n] in H; [|discriminate].
  rewrite eval_S in H. cbv zeta in H. change (traverse [] e') with (Ok nilv) in H. inversion H; subst.
  exists 1%nat. reflexivity.
Qed.

End Sound.

(* the executable operator oracle satisfies the three hypotheses (non-vacuity) *)
Lemma opf_exec_cons a b : opf_exec [4] (Cons a (Cons b nilv)) = Some (Cons a b).
Proof. reflexivity. Qed.
Lemma opf_exec_first x : opf_exec [5] (Cons x nilv) = match x with Cons a _ => Some a | Atom _ => None end.
Proof. destruct x; reflexivity. Qed.
Lemma opf_exec_rest x : opf_exec [6] (Cons x nilv) = match x with Cons _ b => Some b | Atom _ => None end.
Proof. destruct x; reflexivity. Qed.
