(* classic/clvm_tools/stages/stage_2/optimize.rs as written, over raw CLVM values: seems_constant,
   the eight optimizers, sub_args / path_from_args, cons_f / cons_r, the driver loop (fuelled; the memo
   table is omitted: it maps a tree to the result computed earlier for an equal tree), and
   node_path.rs (compose_paths, NodePath). How path atoms are read (signed / unsigned, the treatment of
   0) is taken from Gen/Consts.v, i.e. from the source. *)
From CV Require Import Base.Prelude Base.Val Base.Bytes Clvm.Path Clvm.Eval Gen.Consts.

Inductive ores := Done (r : val) | Failed | OptOof.

Definition is_atom1 (v : val) (x : N) : bool := match v with Atom [y] => y =? x | _ => false end.

(* seems_constant / seems_constant_tail *)
Fixpoint seems_constant (s : val) : bool :=
  match s with
  | Atom b => match b with [] => true | _ => false end
  | Cons operator r =>
      let tail := (fix tl (t : val) : bool :=
                     match t with
                     | Cons l r' => seems_constant l && tl r'
                     | Atom b => match b with [] => true | _ => false end
                     end) in
      match operator with
      | Atom [1] => true
      | Atom [8] => false
      | Atom _ => tail r
      | Cons _ _ => seems_constant operator && tail r
      end
  end.

Definition non_nil (v : val) : bool := match v with Atom [] => false | _ => true end.

Definition quote (v : val) : val := Cons (Atom [1]) v.

(* the patterns, specialised *)
Definition match_a_q (r : val) : option (val * val) :=      (* (a (q . sexp) args) *)
  match r with
  | Cons (Atom [o]) (Cons (Cons (Atom [o1]) sexp) (Cons args (Atom []))) =>
      if (o =? 2) && (o1 =? 1) then Some (sexp, args) else None
  | _ => None
  end.
Definition match_cons (r : val) : option (val * val) :=     (* (c first rest) *)
  match r with
  | Cons (Atom [o]) (Cons f (Cons s (Atom []))) => if o =? 4 then Some (f, s) else None
  | _ => None
  end.
Definition match_op1 (op : N) (r : val) : option val :=     (* (op X) *)
  match r with
  | Cons (Atom [o]) (Cons x (Atom [])) => if o =? op then Some x else None
  | _ => None
  end.

Definition cons_f (args : val) : val :=
  match match_cons args with Some (f, _) => f | None => Cons (Atom [5]) (Cons args nilv) end.
Definition cons_r (args : val) : val :=
  match match_cons args with Some (_, s) => s | None => Cons (Atom [6]) (Cons args nilv) end.

Fixpoint path_from_pos (p : positive) (new_args : val) : val :=
  match p with
  | xH => new_args
  | xO q => path_from_pos q (cons_f new_args)
  | xI q => path_from_pos q (cons_r new_args)
  end.

(* how path_from_args reads the atom: generated *)
Definition read_path_args (b : bytes) : Z :=
  if OPT_PATH_ARGS_SIGNED then be_signed b else Z.of_N (be_unsigned b).

Definition path_from_args (sexp new_args : val) : val :=
  match sexp with
  | Atom b =>
      match read_path_args b with
      | Zpos p => path_from_pos p new_args
      | Z0 => if OPT_PATH_ARGS_ZERO_WHOLE then new_args else sexp
      | Zneg _ => new_args
      end
  | Cons _ _ => new_args
  end.

Fixpoint sub_args (sexp new_args : val) : val :=
  match sexp with
  | Atom _ => path_from_args sexp new_args
  | Cons first_pre rest =>
      let sub_list := (fix sl (t : val) : option val :=
                         match t with
                         | Atom [] => Some nilv
                         | Atom _ => None
                         | Cons x r => match sl r with
                                       | Some t' => Some (Cons (sub_args x new_args) t')
                                       | None => None
                                       end
                         end) in
      let continue (first : val) :=
        match sub_list rest with
        | Some tail => Cons first tail
        | None => path_from_args sexp new_args
        end in
      match first_pre with
      | Cons _ _ => if OPT_PAIR_HEAD_OPAQUE then sexp else continue (sub_args first_pre new_args)
      | Atom [1] => sexp
      | Atom _ => continue first_pre
      end
  end.

(* node_path.rs *)
Fixpoint cp_loop (fuel : nat) (temp path1 mask : Z) : Z * Z :=
  match fuel with
  | O => (path1, mask)
  | S f => if (1 <? temp)%Z then cp_loop f (Z.shiftr temp 1) (Z.shiftl path1 1) (Z.shiftl mask 1)
           else (path1, mask)
  end.
Definition compose_paths (p0 p1 : Z) : Z :=
  let '(p1', mask) := cp_loop (S (Z.to_nat (Z.log2 p0))) p0 p1 1%Z in
  Z.lor p1' (Z.land p0 (mask - 1)).

(* NodePath::new(Some(index)) *)
Definition nodepath_new (index : Z) : Z :=
  if (index <? 0)%Z then Z.of_N (bigint_from_bytes_unsigned (bigint_to_bytes_clvm index)) else index.
Definition nodepath_add (a b : Z) : Z := nodepath_new (compose_paths a b).
Definition nodepath_as_path (index : Z) : bytes := bigint_to_bytes_unsigned (Z.to_N index).

Definition read_path_opt (b : bytes) : Z :=
  if OPT_PATH_OPT_SIGNED then be_signed b else Z.of_N (be_unsigned b).

Section Opt.
Variable opf : bytes -> val -> option val.

Definition cons_optimizer (r : val) : val :=
  match match_op1 5 r with
  | Some x => match match_cons x with Some (f, _) => f | None =>
                match match_op1 6 r with
                | Some y => match match_cons y with Some (_, s) => s | None => r end
                | None => r end end
  | None =>
      match match_op1 6 r with
      | Some y => match match_cons y with Some (_, s) => s | None => r end
      | None => r
      end
  end.

Definition constant_optimizer (fuel : nat) (r : val) : ores :=
  match r with
  | Cons (Atom [1]) _ => Done r
  | _ =>
      if seems_constant r && non_nil r then
        match eval opf fuel r nilv with
        | Ok v => Done (quote v)
        | Fail => Failed
        | Oof => OptOof
        end
      else Done r
  end.

Definition cons_q_a_optimizer (r : val) : val :=
  match match_a_q r with
  | Some (sexp, args) => if is_atom1 args 1 then sexp else r
  | None => r
  end.

Definition path_optimizer (r : val) : val :=
  match match_op1 5 r with
  | Some (Atom b) => Atom (nodepath_as_path (nodepath_add (nodepath_new (read_path_opt b)) 2))
  | _ =>
      match match_op1 6 r with
      | Some (Atom b) => Atom (nodepath_as_path (nodepath_add (nodepath_new (read_path_opt b)) 3))
      | _ => r
      end
  end.

Definition quote_null_optimizer (r : val) : val :=
  match r with Cons (Atom [o]) (Atom []) => if o =? 1 then nilv else r | _ => r end.

Definition apply_null_optimizer (r : val) : val :=
  match r with Cons (Atom [o]) (Cons (Atom []) _) => if o =? 2 then nilv else r | _ => r end.

Definition non_constant_operand (v : val) : bool :=
  match v with
  | Cons (Atom [1]) _ => false
  | Cons (Atom _) _ => true
  | _ => false
  end.

Fixpoint opt_map (f : val -> ores) (l : list val) : option (option (list val)) :=
  (* Some (Some l') ok ; Some None failed ; None out of fuel *)
  match l with
  | [] => Some (Some [])
  | x :: r => match f x with
              | Done x' => match opt_map f r with
                           | Some (Some r') => Some (Some (x' :: r'))
                           | other => other
                           end
              | Failed => Some None
              | OptOof => None
              end
  end.

Fixpoint optimize (fuel : nat) (r : val) : ores :=
  match fuel with
  | O => OptOof
  | S f =>
      match r with
      | Atom _ => Done r
      | Cons _ _ =>
          let next (res : val) (k : unit -> ores) : ores :=
            if val_eqb r res then k tt else optimize f res in
          next (cons_optimizer r) (fun _ =>
          match constant_optimizer f r with
          | Failed => Failed
          | OptOof => OptOof
          | Done r1 =>
          next r1 (fun _ =>
          next (cons_q_a_optimizer r) (fun _ =>
          (* var_change_optimizer_cons_eval *)
          let vc : ores :=
            match match_a_q r with
            | None => Done r
            | Some (call, args) =>
                if OPT_VAR_CHANGE_SKIPS_PAIR_HEAD && (match call with Cons (Cons _ _) _ => true | _ => false end) then Done r else
                let new := sub_args call args in
                if seems_constant new then optimize f new
                else if OPT_VAR_CHANGE_SKIPS_NEW_PAIR_HEAD && (match new with Cons (Cons _ _) _ => true | _ => false end) then Done r
                else match to_list new with
                     | None => Done r
                     | Some operands =>
                         match opt_map (optimize f) operands with
                         | None => OptOof
                         | Some None => Failed
                         | Some (Some opt_operands) =>
                             if existsb non_constant_operand opt_operands then Done r
                             else Done (of_list opt_operands)
                         end
                     end
            end in
          match vc with
          | Failed => Failed
          | OptOof => OptOof
          | Done r2 =>
          next r2 (fun _ =>
          (* children_optimizer *)
          let ch : ores :=
            match to_list r with
            | None => Done r
            | Some [] => Done r
            | Some (Atom [1] :: _) => Done r
            | Some (Cons _ _ :: _ as items) =>
                if OPT_PAIR_HEAD_OPAQUE then Done r
                else match opt_map (optimize f) items with
                     | None => OptOof
                     | Some None => Failed
                     | Some (Some items') => Done (of_list items')
                     end
            | Some items =>
                match opt_map (optimize f) items with
                | None => OptOof
                | Some None => Failed
                | Some (Some items') => Done (of_list items')
                end
            end in
          match ch with
          | Failed => Failed
          | OptOof => OptOof
          | Done r3 =>
          next r3 (fun _ =>
          next (path_optimizer r) (fun _ =>
          next (quote_null_optimizer r) (fun _ =>
          next (apply_null_optimizer r) (fun _ => Done r))))
          end)
          end))
          end)
      end
  end.

End Opt.
