(* Proofs about the codec model (Ser/Serialize.v). *)
From CV Require Import Base.Prelude Base.Val Base.Bytes Base.NLemmas Gen.Consts Ser.Serialize.
From Coq Require Import ZifyN ZifyNat ZifyBool.
Ltac Zify.zify_post_hook ::= Z.div_mod_to_equations.

(* ------------------------------------------------------------------ *)
(* Part A: the prefix bytes of atom_size_blob are the reference prefix  *)

Lemma lor_128 x : x < 64 -> N.lor 128 x = 128 + x.
Proof. intros H. apply (lor_add_low 128 x 6); [exact H | reflexivity]. Qed.
Lemma lor_192 x : x < 32 -> N.lor 192 x = 192 + x.
Proof. intros H. apply (lor_add_low 192 x 5); [exact H | reflexivity]. Qed.
Lemma lor_224 x : x < 16 -> N.lor 224 x = 224 + x.
Proof. intros H. apply (lor_add_low 224 x 4); [exact H | reflexivity]. Qed.
Lemma lor_240 x : x < 8 -> N.lor 240 x = 240 + x.
Proof. intros H. apply (lor_add_low 240 x 3); [exact H | reflexivity]. Qed.
Lemma lor_248 x : x < 4 -> N.lor 248 x = 248 + x.
Proof. intros H. apply (lor_add_low 248 x 2); [exact H | reflexivity]. Qed.

Lemma pick_class_spec size : pick_class size_classes size = spec_prefix size.
Proof.
  unfold size_classes, spec_prefix, pick_class.
  destruct (N.ltb_spec size 64) as [H1|H1].
  { rewrite lor_128 by lia. do 2 f_equal. lia. }
  destruct (N.ltb_spec size 8192) as [H2|H2].
  { rewrite !shiftr_div, !land_255. change (2 ^ 8) with 256.
    rewrite lor_192 by lia. do 2 f_equal; [lia|]. f_equal. lia. }
  destruct (N.ltb_spec size 1048576) as [H3|H3].
  { rewrite !shiftr_div, !land_255. change (2 ^ 8) with 256. change (2 ^ 16) with 65536.
    rewrite lor_224 by lia. do 2 f_equal; [lia|]. f_equal; [lia|]. f_equal. lia. }
  destruct (N.ltb_spec size 134217728) as [H4|H4].
  { rewrite !shiftr_div, !land_255. change (2 ^ 8) with 256. change (2 ^ 16) with 65536. change (2 ^ 24) with 16777216.
    rewrite lor_240 by lia. do 2 f_equal; [lia|]. f_equal; [lia|]. f_equal; [lia|]. f_equal. lia. }
  destruct (N.ltb_spec size 17179869184) as [H5|H5].
  { rewrite !shiftr_div, !land_255. change (2 ^ 8) with 256. change (2 ^ 16) with 65536. change (2 ^ 24) with 16777216.
    change (65536 * 65536) with 4294967296.
    rewrite lor_248 by lia. do 2 f_equal; [lia|]. f_equal; [lia|]. f_equal; [lia|]. f_equal; [lia|]. f_equal. lia. }
  reflexivity.
Qed.

Lemma atom_size_blob_spec b :
  match atom_size_blob b with
  | Some (true, p) => spec_encode_atom b = Some (p ++ b)
  | Some (false, p) => spec_encode_atom b = Some p
  | None => spec_encode_atom b = None
  end.
Proof.
  unfold atom_size_blob, spec_encode_atom.
  destruct b as [|x [|y r]].
  - reflexivity.
  - unfold MAX_SINGLE_BYTE. destruct (N.leb_spec x 127) as [H|H]; destruct (N.ltb_spec x 128) as [H'|H']; try lia.
    + reflexivity.
    + rewrite pick_class_spec. cbn [length N.of_nat]. destruct (spec_prefix _); reflexivity.
  - rewrite pick_class_spec. destruct (spec_prefix _); reflexivity.
Qed.

(* ------------------------------------------------------------------ *)
(* Part B: the explicit-stack encoder computes spec_encode              *)

Fixpoint ecost (v : val) : nat :=
  match v with
  | Atom b => match atom_size_blob b with Some (true, _) => 2%nat | _ => 1%nat end
  | Cons a d => S (ecost a + ecost d)
  end.

Lemma ecost_bound v : (ecost v <= 3 * val_size v)%nat.
Proof.
  induction v as [b|a IHa d IHd]; cbn [ecost val_size].
  - destruct (atom_size_blob b) as [[[|] ?]|]; lia.
  - lia.
Qed.

Lemma enc_run_obj v : forall e, spec_encode v = Some e ->
  forall f st out, enc_run (ecost v + f) (EObj v :: st) out = enc_run f st (out ++ e).
Proof.
  induction v as [b|a IHa d IHd]; intros e He f st out.
  - cbn [spec_encode] in He. cbn [ecost].
    pose proof (atom_size_blob_spec b) as S. destruct (atom_size_blob b) as [[[|] p]|] eqn:E.
    + rewrite He in S. inversion S; subst e. cbn [Nat.add enc_run]. rewrite E. cbn [enc_run].
      rewrite app_assoc. reflexivity.
    + rewrite He in S. inversion S; subst e. cbn [Nat.add enc_run]. rewrite E. reflexivity.
    + congruence.
  - cbn [spec_encode] in He.
    destruct (spec_encode a) as [x|] eqn:Ea; [|discriminate].
    destruct (spec_encode d) as [y|] eqn:Ed; [|discriminate].
    inversion He; subst e. cbn [ecost Nat.add enc_run].
    rewrite <- Nat.add_assoc. rewrite (IHa x eq_refl). rewrite (IHd y eq_refl).
    f_equal. rewrite <- !app_assoc. reflexivity.
Qed.

Theorem encode_spec v e : spec_encode v = Some e -> encode v = Some e.
Proof.
  intros He. unfold encode.
  pose proof (ecost_bound v) as Hb.
  replace (3 * val_size v + 3)%nat with (ecost v + S (3 * val_size v + 2 - ecost v))%nat by lia.
  rewrite (enc_run_obj v e He). reflexivity.
Qed.
