(* Proofs about the codec model (Ser/Serialize.v). *)
From CV Require Import Base.Prelude Base.Val Base.Bytes Base.NLemmas Gen.Consts Ser.Serialize.
From Coq Require Import ZifyN ZifyNat ZifyBool.
Ltac Zify.zify_post_hook ::= Z.div_mod_to_equations.

(* ------------------------------------------------------------------ *)
(* Part A: the prefix bytes of atom_size_blob are the reference prefix  *)

Lemma lor_128 x : x < 64 -> N.lor 128 x = 128 + x.
Proof. intros H. apply (lor_add_low 128 x 6); [exact H | reflexivity]. Qed.
Lemma lor_192 x : x < 32 -> N.lor 192 x = 192 + x.
Proof. intros H. apply (lor_add_low 192 x 5); [exact H | reflexivity]. Qed.
Lemma lor_224 x : x < 16 -> N.lor 224 x = 224 + x.
Proof. intros H. apply (lor_add_low 224 x 4); [exact H | reflexivity]. Qed.
Lemma lor_240 x : x < 8 -> N.lor 240 x = 240 + x.
Proof. intros H. apply (lor_add_low 240 x 3); [exact H | reflexivity]. Qed.
Lemma lor_248 x : x < 4 -> N.lor 248 x = 248 + x.
Proof. intros H. apply (lor_add_low 248 x 2); [exact H | reflexivity]. Qed.

Lemma pick_class_spec size : pick_class size_classes size = spec_prefix size.
Proof.
  unfold size_classes, spec_prefix, pick_class.
  destruct (N.ltb_spec size 64) as [H1|H1].
  { rewrite lor_128 by lia. do 2 f_equal. lia. }
  destruct (N.ltb_spec size 8192) as [H2|H2].
  { rewrite !shiftr_div, !land_255. change (2 ^ 8) with 256.
    rewrite lor_192 by lia. do 2 f_equal; [lia|]. f_equal. lia. }
  destruct (N.ltb_spec size 1048576) as [H3|H3].
  { rewrite !shiftr_div, !land_255. change (2 ^ 8) with 256. change (2 ^ 16) with 65536.
    rewrite lor_224 by lia. do 2 f_equal; [lia|]. f_equal; [lia|]. f_equal. lia. }
  destruct (N.ltb_spec size 134217728) as [H4|H4].
  { rewrite !shiftr_div, !land_255. change (2 ^ 8) with 256. change (2 ^ 16) with 65536. change (2 ^ 24) with 16777216.
    rewrite lor_240 by lia. do 2 f_equal; [lia|]. f_equal; [lia|]. f_equal; [lia|]. f_equal. lia. }
  destruct (N.ltb_spec size 17179869184) as [H5|H5].
  { rewrite !shiftr_div, !land_255. change (2 ^ 8) with 256. change (2 ^ 16) with 65536. change (2 ^ 24) with 16777216.
    change (65536 * 65536) with 4294967296.
    rewrite lor_248 by lia. do 2 f_equal; [lia|]. f_equal; [lia|]. f_equal; [lia|]. f_equal; [lia|]. f_equal. lia. }
  reflexivity.
Qed.

Lemma atom_size_blob_spec b :
  match atom_size_blob b with
  | Some (true, p) => spec_encode_atom b = Some (p ++ b)
  | Some (false, p) => spec_encode_atom b = Some p
  | None => spec_encode_atom b = None
  end.
Proof.
  unfold atom_size_blob, spec_encode_atom.
  destruct b as [|x [|y r]].
  - reflexivity.
  - unfold MAX_SINGLE_BYTE. destruct (N.leb_spec x 127) as [H|H]; destruct (N.ltb_spec x 128) as [H'|H']; try lia.
    + reflexivity.
    + rewrite pick_class_spec. cbn [length N.of_nat]. destruct (spec_prefix _); reflexivity.
  - rewrite pick_class_spec. destruct (spec_prefix _); reflexivity.
Qed.

(* ------------------------------------------------------------------ *)
(* Part B: the explicit-stack encoder computes spec_encode              *)

Fixpoint ecost (v : val) : nat :=
  match v with
  | Atom b => match atom_size_blob b with Some (true, _) => 2%nat | _ => 1%nat end
  | Cons a d => S (ecost a + ecost d)
  end.

Lemma ecost_bound v : (ecost v <= 3 * val_size v)%nat.
Proof.
  induction v as [b|a IHa d IHd]; cbn [ecost val_size].
  - destruct (atom_size_blob b) as [[[|] ?]|]; lia.
  - lia.
Qed.

Lemma enc_run_obj v : forall e, spec_encode v = Some e ->
  forall f st out, enc_run (ecost v + f) (EObj v :: st) out = enc_run f st (out ++ e).
Proof.
  induction v as [b|a IHa d IHd]; intros e He f st out.
  - cbn [spec_encode] in He. cbn [ecost].
    pose proof (atom_size_blob_spec b) as S. destruct (atom_size_blob b) as [[[|] p]|] eqn:E.
    + rewrite He in S. inversion S; subst e. cbn [Nat.add enc_run]. rewrite E. cbn [enc_run].
      rewrite app_assoc. reflexivity.
    + rewrite He in S. inversion S; subst e. cbn [Nat.add enc_run]. rewrite E. reflexivity.
    + congruence.
  - cbn [spec_encode] in He.
    destruct (spec_encode a) as [x|] eqn:Ea; [|discriminate].
    destruct (spec_encode d) as [y|] eqn:Ed; [|discriminate].
    inversion He; subst e. cbn [ecost Nat.add enc_run].
    rewrite <- Nat.add_assoc. rewrite (IHa x eq_refl). rewrite (IHd y eq_refl).
    f_equal. rewrite <- !app_assoc. reflexivity.
Qed.

Theorem encode_spec v e : spec_encode v = Some e -> encode v = Some e.
Proof.
  intros He. unfold encode.
  pose proof (ecost_bound v) as Hb.
  replace (3 * val_size v + 3)%nat with (ecost v + S (3 * val_size v + 2 - ecost v))%nat by lia.
  rewrite (enc_run_obj v e He). reflexivity.
Qed.

(* ------------------------------------------------------------------ *)
(* Part C: integer casts and the prefix reader                          *)

Lemma get_u32_be a b c d : a < 256 -> b < 256 -> c < 256 -> d < 256 ->
  get_u32_expr a b c d = a * 16777216 + b * 65536 + c * 256 + d.
Proof.
  intros Ha Hb Hc Hd. unfold get_u32_expr. rewrite !shiftl_mul.
  change (2 ^ 24) with 16777216. change (2 ^ 16) with 65536. change (2 ^ 8) with 256.
  rewrite (lor_add_low (a * 16777216) (b * 65536) 24) by (change (2 ^ 24) with 16777216; lia).
  rewrite (lor_add_low _ (c * 256) 16) by (change (2 ^ 16) with 65536; lia).
  rewrite (lor_add_low _ d 8) by (change (2 ^ 8) with 256; lia).
  reflexivity.
Qed.

Lemma wf_bytes_cons x r : wf_bytes (x :: r) = true -> x < 256 /\ wf_bytes r = true.
Proof. cbn. rewrite andb_true_iff, N.ltb_lt. tauto. Qed.

Lemma int_from_bytes_be b : wf_bytes b = true -> (length b <= 7)%nat ->
  int_from_bytes b = Some (be_unsigned b).
Proof.
  intros Hw Hl.
  destruct b as [|a1 [|a2 [|a3 [|a4 [|a5 [|a6 [|a7 [|a8 r]]]]]]]]; try (cbn in Hl; lia);
  repeat match goal with H : wf_bytes (_ :: _) = true |- _ => apply wf_bytes_cons in H; destruct H as [? H] end;
  unfold int_from_bytes, be_unsigned; cbn [length N.of_nat Pos.of_succ_nat Pos.succ be_acc];
  try reflexivity.
  all: match goal with |- (if ?c then _ else _) = _ => change c with false; cbv iota end.
  all: unfold from_bytes_core; cbn [length Nat.modulo Nat.divmod Nat.div Nat.sub fst snd Nat.eqb groups_loop remain_loop get_u32 nth Nat.add Nat.mul].
  all: unfold get_u32; cbn [nth Nat.add]; rewrite ?get_u32_be by assumption.
  all: unfold two64, two32; f_equal.
  all: repeat rewrite N.mod_small by lia.
  all: lia.
Qed.
Definition strip_ok (b : N) : bool :=
  let '(b', k) := strip_prefix 9 b DECODE_BIT_MASK_INIT DECODE_BIT_COUNT_INIT in
  (b' =? b - (256 - 2 ^ (8 - N.of_nat (leading_ones b)))) && (k =? N.of_nat (leading_ones b)).

Lemma strip_prefix_spec b : b < 255 ->
  strip_prefix 9 b DECODE_BIT_MASK_INIT DECODE_BIT_COUNT_INIT =
    (b - (256 - 2 ^ (8 - N.of_nat (leading_ones b))), N.of_nat (leading_ones b)).
Proof.
  intros H.
  assert (A : forallb strip_ok (nrange 255) = true) by (vm_compute; reflexivity).
  pose proof (forall_nrange strip_ok 255 A b) as S. cbv beta in S.
  specialize (S ltac:(cbn; lia)). unfold strip_ok in S.
  destruct (strip_prefix 9 b DECODE_BIT_MASK_INIT DECODE_BIT_COUNT_INIT) as [b' k].
  apply andb_true_iff in S. destruct S as [S1 S2]. apply N.eqb_eq in S1, S2. congruence.
Qed.

Lemma firstn_app_exact {A} (a b : list A) : firstn (length a) (a ++ b) = a.
Proof. rewrite firstn_app, Nat.sub_diag, firstn_all. cbn. apply app_nil_r. Qed.
Lemma skipn_app_exact {A} (a b : list A) : skipn (length a) (a ++ b) = b.
Proof. rewrite skipn_app, Nat.sub_diag, skipn_all. reflexivity. Qed.

Ltac lo_solve := unfold leading_ones;
  repeat match goal with |- context [N.ltb ?a ?b] => destruct (N.ltb_spec a b) end; try lia; try reflexivity.

Lemma prefix_decodes size p : spec_prefix size = Some p -> 1 <= size ->
  exists f ps k, p = f :: ps /\ 128 < f /\ f < 252 /\ leading_ones f = k /\ (1 <= k <= 5)%nat /\
    length ps = (k - 1)%nat /\
    wf_bytes ((f - (256 - 2 ^ (8 - N.of_nat k))) :: ps) = true /\
    be_unsigned ((f - (256 - 2 ^ (8 - N.of_nat k))) :: ps) = size.
Proof.
  unfold spec_prefix. intros H Hs.
  destruct (N.ltb_spec size 64) as [H1|H1].
  { inversion H; subst p. exists (128 + size), [], 1%nat.
    split; [reflexivity|]. split; [lia|]. split; [lia|]. split; [lo_solve|]. split; [lia|]. split; [reflexivity|].
    change (2 ^ (8 - N.of_nat 1)) with 128. split.
    - cbn [wf_bytes]. rewrite andb_true_r. apply N.ltb_lt. lia.
    - unfold be_unsigned; cbn [be_acc]. lia. }
  destruct (N.ltb_spec size 8192) as [H2|H2].
  { inversion H; subst p. exists (192 + size / 256), [size mod 256], 2%nat.
    split; [reflexivity|]. split; [lia|]. split; [lia|]. split; [lo_solve|]. split; [lia|]. split; [reflexivity|].
    change (2 ^ (8 - N.of_nat 2)) with 64. split.
    - cbn [wf_bytes]. rewrite andb_true_r. apply andb_true_iff. split; apply N.ltb_lt; lia.
    - unfold be_unsigned; cbn [be_acc]. lia. }
  destruct (N.ltb_spec size 1048576) as [H3|H3].
  { inversion H; subst p. exists (224 + size / 65536), [(size / 256) mod 256; size mod 256], 3%nat.
    split; [reflexivity|]. split; [lia|]. split; [lia|]. split; [lo_solve|]. split; [lia|]. split; [reflexivity|].
    change (2 ^ (8 - N.of_nat 3)) with 32. split.
    - cbn [wf_bytes]. rewrite andb_true_r. repeat (apply andb_true_iff; split); apply N.ltb_lt; lia.
    - unfold be_unsigned; cbn [be_acc]. lia. }
  destruct (N.ltb_spec size 134217728) as [H4|H4].
  { inversion H; subst p. exists (240 + size / 16777216), [(size / 65536) mod 256; (size / 256) mod 256; size mod 256], 4%nat.
    split; [reflexivity|]. split; [lia|]. split; [lia|]. split; [lo_solve|]. split; [lia|]. split; [reflexivity|].
    change (2 ^ (8 - N.of_nat 4)) with 16. split.
    - cbn [wf_bytes]. rewrite andb_true_r. repeat (apply andb_true_iff; split); apply N.ltb_lt; lia.
    - unfold be_unsigned; cbn [be_acc]. lia. }
  destruct (N.ltb_spec size 17179869184) as [H5|H5]; [|discriminate].
  { inversion H; subst p. exists (248 + size / 4294967296), [(size / 16777216) mod 256; (size / 65536) mod 256; (size / 256) mod 256; size mod 256], 5%nat.
    split; [reflexivity|]. split; [lia|]. split; [lia|]. split; [lo_solve|]. split; [lia|]. split; [reflexivity|].
    change (2 ^ (8 - N.of_nat 5)) with 8. split.
    - cbn [wf_bytes]. rewrite andb_true_r. repeat (apply andb_true_iff; split); apply N.ltb_lt; lia.
    - unfold be_unsigned; cbn [be_acc]. lia. }
Qed.

Lemma spec_prefix_bound size p : spec_prefix size = Some p -> size < 17179869184.
Proof.
  unfold spec_prefix. repeat match goal with |- context [N.ltb ?a ?b] => destruct (N.ltb_spec a b) end; try lia. discriminate.
Qed.

(* an encoded atom is read back *)
Lemma atom_from_stream_sized bs p rest :
  spec_prefix (N.of_nat (length bs)) = Some p -> (1 <= length bs)%nat ->
  exists f tl, p = f :: tl /\ f <> 255 /\
    atom_from_stream f ((tl ++ bs) ++ rest) = (Some (Atom bs), rest).
Proof.
  intros Hp Hl. pose proof (spec_prefix_bound _ _ Hp) as Hb.
  destruct (prefix_decodes _ _ Hp ltac:(lia)) as (f & ps & k & -> & Hf1 & Hf2 & Hk & Hkr & Hlen & Hwf & Hbe).
  exists f, ps. split; [reflexivity|]. split; [lia|].
  unfold atom_from_stream.
  unfold DECODE_EMPTY_BYTE, MAX_SINGLE_BYTE.
  replace (f =? 128) with false by (symmetry; apply N.eqb_neq; lia).
  replace (f <=? 127) with false by (symmetry; apply N.leb_gt; lia).
  rewrite strip_prefix_spec by lia. rewrite Hk.
  unfold DECODE_MAX_SIZE_BYTES.
  replace (6 <? N.of_nat k) with false by (symmetry; apply N.ltb_ge; lia).
  replace (N.to_nat (N.of_nat k - 1)) with (k - 1)%nat by lia.
  rewrite <- app_assoc.
  destruct (N.ltb_spec 1 (N.of_nat k)) as [Hk1|Hk1].
  - unfold stream_read. rewrite <- Hlen. rewrite firstn_app_exact, skipn_app_exact.
    rewrite Nat.eqb_refl. cbn [negb andb].
    rewrite int_from_bytes_be; [|exact Hwf|cbn [length]; lia].
    rewrite Hbe. unfold DECODE_SIZE_LIMIT.
    replace (17179869184 <=? N.of_nat (length bs)) with false by (symmetry; apply N.leb_gt; lia).
    rewrite app_length.
    replace (N.of_nat (length bs + length rest) <? N.of_nat (length bs)) with false by (symmetry; apply N.ltb_ge; lia).
    rewrite Nat2N.id. rewrite firstn_app_exact, skipn_app_exact. reflexivity.
  - assert (Ek : k = 1%nat) by lia. rewrite Ek in Hlen, Hwf, Hbe |- *. destruct ps; [|cbn in Hlen; discriminate]. cbn [andb app].
    rewrite int_from_bytes_be; [|exact Hwf|cbn [length]; lia].
    rewrite Hbe. unfold DECODE_SIZE_LIMIT.
    replace (17179869184 <=? N.of_nat (length bs)) with false by (symmetry; apply N.leb_gt; lia).
    rewrite app_length.
    replace (N.of_nat (length bs + length rest) <? N.of_nat (length bs)) with false by (symmetry; apply N.ltb_ge; lia).
    unfold stream_read. rewrite Nat2N.id. rewrite firstn_app_exact, skipn_app_exact. reflexivity.
Qed.

(* ------------------------------------------------------------------ *)
(* Part D: decode (encode v ++ rest) = (v, rest)                        *)

Fixpoint dcost (v : val) : nat :=
  match v with Atom _ => 1%nat | Cons a d => S (S (dcost a + dcost d)) end.

Lemma spec_encode_atom_nonempty b e : spec_encode_atom b = Some e -> (1 <= length e)%nat.
Proof.
  unfold spec_encode_atom. destruct b as [|x [|y r]].
  - intros H; inversion H; cbn; lia.
  - destruct (x <? 128); [intros H; inversion H; cbn; lia|].
    destruct (spec_prefix 1); [|discriminate]. intros H; inversion H. rewrite app_length. cbn. lia.
  - destruct (spec_prefix _); [|discriminate]. intros H; inversion H. rewrite app_length. cbn. lia.
Qed.

Lemma dcost_bound v : forall e, spec_encode v = Some e -> (dcost v <= 3 * length e)%nat.
Proof.
  induction v as [b|a IHa d IHd]; intros e He; cbn [spec_encode] in He.
  - apply spec_encode_atom_nonempty in He. cbn [dcost]. lia.
  - destruct (spec_encode a) as [x|]; [|discriminate]. destruct (spec_encode d) as [y|]; [|discriminate].
    inversion He; subst e. specialize (IHa x eq_refl). specialize (IHd y eq_refl).
    cbn [dcost length]. rewrite app_length. lia.
Qed.

Lemma dec_run_marker f ops vals s :
  dec_run (S f) (DRead :: ops) vals (255 :: s) = dec_run f (DRead :: DRead :: DCons :: ops) vals s.
Proof. reflexivity. Qed.
Lemma dec_run_cons f ops l r vs s :
  dec_run (S f) (DCons :: ops) (r :: l :: vs) s = dec_run f ops (Cons l r :: vs) s.
Proof. reflexivity. Qed.

Lemma dec_run_atom b e : spec_encode_atom b = Some e ->
  forall f ops vals rest,
    dec_run (S f) (DRead :: ops) vals (e ++ rest) = dec_run f ops (Atom b :: vals) rest.
Proof.
  intros He f ops vals rest. unfold spec_encode_atom in He.
  destruct b as [|x [|y r]].
  - inversion He; subst e. cbn [app dec_run]. reflexivity.
  - destruct (N.ltb_spec x 128) as [Hx|Hx].
    + inversion He; subst e. cbn [app dec_run]. unfold CONS_BOX_MARKER.
      replace (x =? 255) with false by (symmetry; apply N.eqb_neq; lia).
      unfold atom_from_stream, DECODE_EMPTY_BYTE, MAX_SINGLE_BYTE.
      replace (x =? 128) with false by (symmetry; apply N.eqb_neq; lia).
      replace (x <=? 127) with true by (symmetry; apply N.leb_le; lia). reflexivity.
    + destruct (spec_prefix 1) as [p|] eqn:Ep; [|discriminate]. inversion He; subst e.
      destruct (atom_from_stream_sized [x] p rest Ep ltac:(cbn; lia)) as (f0 & tl & -> & Hf & Hd).
      cbn [app dec_run]. unfold CONS_BOX_MARKER.
      replace (f0 =? 255) with false by (symmetry; apply N.eqb_neq; exact Hf).
      cbn [app] in Hd. rewrite Hd. reflexivity.
  - destruct (spec_prefix _) as [p|] eqn:Ep; [|discriminate]. inversion He; subst e.
    destruct (atom_from_stream_sized (x :: y :: r) p rest Ep ltac:(cbn; lia)) as (f0 & tl & -> & Hf & Hd).
    cbn [app dec_run]. unfold CONS_BOX_MARKER.
    replace (f0 =? 255) with false by (symmetry; apply N.eqb_neq; exact Hf).
    cbn [app] in Hd. rewrite Hd. reflexivity.
Qed.

Lemma dec_run_encoded v : forall e, spec_encode v = Some e ->
  forall f ops vals rest,
    dec_run (dcost v + f) (DRead :: ops) vals (e ++ rest) = dec_run f ops (v :: vals) rest.
Proof.
  induction v as [b|a IHa d IHd]; intros e He f ops vals rest; cbn [spec_encode] in He.
  - cbn [dcost Nat.add]. apply dec_run_atom. exact He.
  - destruct (spec_encode a) as [x|] eqn:Ea; [|discriminate].
    destruct (spec_encode d) as [y|] eqn:Ed; [|discriminate].
    inversion He; subst e. cbn [dcost Nat.add app].
    rewrite dec_run_marker. rewrite <- app_assoc.
    replace (S (dcost a + dcost d + f)) with (dcost a + (dcost d + S f))%nat by lia.
    rewrite (IHa x eq_refl). rewrite (IHd y eq_refl). rewrite dec_run_cons. reflexivity.
Qed.

Theorem decode_encode v e rest : spec_encode v = Some e -> decode (e ++ rest) = Some (v, rest).
Proof.
  intros He. unfold decode. pose proof (dcost_bound v e He) as Hb.
  rewrite app_length.
  replace (3 * (length e + length rest) + 3)%nat
    with (dcost v + S (3 * (length e + length rest) + 2 - dcost v))%nat by lia.
  rewrite (dec_run_encoded v e He). reflexivity.
Qed.

(* ------------------------------------------------------------------ *)
(* Part E: whatever decode returns, the reference decoder returns too   *)
(* (the per-op errors that sexp_from_stream ignores are harmless)       *)

Fixpoint exec_count (c : nat) (ops : list dec_op) : option nat :=
  match ops with
  | [] => Some c
  | DRead :: r => exec_count (S c) r
  | DCons :: r => if (2 <=? c)%nat then exec_count (c - 1) r else None
  end.

Lemma dec_run_S f ops vals s : dec_run (S f) ops vals s =
  match ops with
  | [] => Some (vals, s)
  | DCons :: ops' =>
      match vals with
      | r :: l :: vs => dec_run f ops' (Cons l r :: vs) s
      | _ => dec_run f ops' [] s
      end
  | DRead :: ops' =>
      match s with
      | [] => dec_run f ops' vals s
      | b :: s' =>
          if b =? CONS_BOX_MARKER then dec_run f (DRead :: DRead :: DCons :: ops') vals s'
          else match atom_from_stream b s' with
               | (Some v, s'') => dec_run f ops' (v :: vals) s''
               | (None, s'') => dec_run f ops' vals s''
               end
      end
  end.
Proof. reflexivity. Qed.

(* once a value is missing (d >= 1), the run can only end with an empty value stack *)
Lemma deficit_empty : forall f ops vals s d vals' s',
  (1 <= d)%nat -> exec_count (length vals + d) ops = Some 1%nat ->
  dec_run f ops vals s = Some (vals', s') -> vals' = [].
Proof.
  induction f as [|f IH]; intros ops vals s d vals' s' Hd He Hr; [discriminate|].
  rewrite dec_run_S in Hr. destruct ops as [|[|] ops'].
  - inversion Hr; subst. cbn in He. inversion He. destruct vals'; [reflexivity|cbn in *; lia].
  - cbn [exec_count] in He. destruct (Nat.leb_spec 2 (length vals + d)) as [H2|H2]; [|discriminate].
    destruct vals as [|r [|l vs]].
    + apply (IH ops' [] s (d - 1)%nat vals' s'); [cbn in *; lia | | exact Hr].
      cbn [length] in *. replace (0 + (d - 1))%nat with (0 + d - 1)%nat by lia. exact He.
    + apply (IH ops' [] s d vals' s'); [lia | | exact Hr].
      cbn [length] in *. replace (0 + d)%nat with (1 + d - 1)%nat by lia. exact He.
    + apply (IH ops' (Cons l r :: vs) s d vals' s'); [lia | | exact Hr].
      cbn [length] in *. replace (S (length vs) + d)%nat with (S (S (length vs)) + d - 1)%nat by lia. exact He.
  - cbn [exec_count] in He. destruct s as [|b s0].
    + apply (IH ops' vals [] (S d) vals' s'); [lia | | exact Hr].
      replace (length vals + S d)%nat with (S (length vals + d)) by lia. exact He.
    + destruct (b =? CONS_BOX_MARKER).
      * apply (IH (DRead :: DRead :: DCons :: ops') vals s0 d vals' s'); [lia | | exact Hr].
        cbn [exec_count]. replace (2 <=? S (S (length vals + d)))%nat with true by (symmetry; apply Nat.leb_le; lia).
        replace (S (S (length vals + d)) - 1)%nat with (S (length vals + d)) by lia. exact He.
      * destruct (atom_from_stream b s0) as [[v|] s2].
        -- apply (IH ops' (v :: vals) s2 d vals' s'); [lia | | exact Hr]. cbn [length]. exact He.
        -- apply (IH ops' vals s2 (S d) vals' s'); [lia | | exact Hr].
           replace (length vals + S d)%nat with (S (length vals + d)) by lia. exact He.
Qed.

Fixpoint dec_strict (fuel : nat) (ops : list dec_op) (vals : list val) (s : bytes) : option (list val * bytes) :=
  match fuel with
  | O => None
  | S f =>
      match ops with
      | [] => Some (vals, s)
      | DCons :: ops' =>
          match vals with
          | r :: l :: vs => dec_strict f ops' (Cons l r :: vs) s
          | _ => None
          end
      | DRead :: ops' =>
          match s with
          | [] => None
          | b :: s' =>
              if b =? CONS_BOX_MARKER then dec_strict f (DRead :: DRead :: DCons :: ops') vals s'
              else match atom_from_stream b s' with
                   | (Some v, s'') => dec_strict f ops' (v :: vals) s''
                   | (None, _) => None
                   end
          end
      end
  end.

Lemma lenient_is_strict : forall f ops vals s vals' s',
  exec_count (length vals) ops = Some 1%nat ->
  dec_run f ops vals s = Some (vals', s') -> vals' <> [] ->
  dec_strict f ops vals s = Some (vals', s').
Proof.
  induction f as [|f IH]; intros ops vals s vals' s' He Hr Hne; [discriminate|].
  rewrite dec_run_S in Hr. cbn [dec_strict]. destruct ops as [|[|] ops'].
  - exact Hr.
  - cbn [exec_count] in He. destruct (Nat.leb_spec 2 (length vals)) as [H2|H2]; [|discriminate].
    destruct vals as [|r [|l vs]]; try (cbn in H2; lia).
    apply IH; [|exact Hr|exact Hne]. cbn [length] in *.
    replace (S (length vs)) with (S (S (length vs)) - 1)%nat by lia. exact He.
  - cbn [exec_count] in He. destruct s as [|b s0].
    + exfalso. apply Hne. apply (deficit_empty f ops' vals [] 1 vals' s'); [lia | | exact Hr].
      replace (length vals + 1)%nat with (S (length vals)) by lia. exact He.
    + destruct (b =? CONS_BOX_MARKER).
      * apply IH; [|exact Hr|exact Hne]. cbn [exec_count].
        replace (2 <=? S (S (length vals)))%nat with true by (symmetry; apply Nat.leb_le; lia).
        replace (S (S (length vals)) - 1)%nat with (S (length vals)) by lia. exact He.
      * destruct (atom_from_stream b s0) as [[v|] s2].
        -- apply IH; [|exact Hr|exact Hne]. cbn [length]. exact He.
        -- exfalso. apply Hne. apply (deficit_empty f ops' vals s2 1 vals' s'); [lia | | exact Hr].
           replace (length vals + 1)%nat with (S (length vals)) by lia. exact He.
Qed.

(* well-formedness of byte strings under firstn / skipn *)
Lemma wf_bytes_skipn n s : wf_bytes s = true -> wf_bytes (skipn n s) = true.
Proof.
  revert s; induction n as [|n IH]; intros s H; [exact H|]. destruct s as [|x r]; [reflexivity|].
  cbn [skipn]. apply IH. apply wf_bytes_cons in H. tauto.
Qed.
Lemma wf_bytes_firstn n s : wf_bytes s = true -> wf_bytes (firstn n s) = true.
Proof.
  revert s; induction n as [|n IH]; intros s H; [reflexivity|]. destruct s as [|x r]; [reflexivity|].
  cbn [firstn wf_bytes]. apply wf_bytes_cons in H. destruct H as [Hx Hr].
  rewrite IH by exact Hr. rewrite andb_true_r. apply N.ltb_lt. exact Hx.
Qed.

(* the atom reader agrees with the reference atom reader whenever it returns a value *)
Lemma atom_from_stream_sound b s v s2 :
  wf_bytes (b :: s) = true -> b <> 255 ->
  atom_from_stream b s = (Some v, s2) ->
  spec_decode_atom b s = Some (v, s2) /\ wf_bytes s2 = true.
Proof.
  intros Hw Hb. apply wf_bytes_cons in Hw. destruct Hw as [Hb256 Hws].
  unfold atom_from_stream, spec_decode_atom, DECODE_EMPTY_BYTE, MAX_SINGLE_BYTE.
  destruct (N.eqb_spec b 128) as [->|Hn128].
  { intros H; inversion H; subst. split; [|exact Hws].
    change (128 <? 128) with false. change (leading_ones 128) with 1%nat. cbv iota.
    change (Nat.ltb 6 1) with false. cbn [Nat.sub firstn skipn length Nat.eqb negb].
    change (128 - (256 - 2 ^ (8 - N.of_nat 1))) with 0. change (be_unsigned [0]) with 0.
    change (17179869184 <=? 0) with false. cbv iota.
    replace (N.of_nat (length s2) <? 0) with false by (symmetry; apply N.ltb_ge; lia). reflexivity. }
  destruct (N.leb_spec b 127) as [Hle|Hgt].
  { intros H; inversion H; subst. replace (b <? 128) with true by (symmetry; apply N.ltb_lt; lia).
    split; [reflexivity|exact Hws]. }
  replace (b <? 128) with false by (symmetry; apply N.ltb_ge; lia).
  rewrite strip_prefix_spec by lia.
  set (k := leading_ones b).
  assert (Hk : (1 <= k <= 7)%nat).
  { subst k. unfold leading_ones.
    repeat match goal with |- context [N.ltb ?a ?b] => destruct (N.ltb_spec a b) end; lia. }
  unfold DECODE_MAX_SIZE_BYTES.
  destruct (N.ltb_spec 6 (N.of_nat k)) as [H6|H6]; [discriminate|].
  replace (Nat.ltb 6 k) with false by (symmetry; apply Nat.ltb_ge; lia).
  replace (N.to_nat (N.of_nat k - 1)) with (k - 1)%nat by lia.
  set (first := b - (256 - 2 ^ (8 - N.of_nat k))).
  assert (Hfirst : first < 256) by (subst first; lia).
  destruct (N.ltb_spec 1 (N.of_nat k)) as [Hk1|Hk1].
  - unfold stream_read.
    destruct (Nat.eqb_spec (length (firstn (k - 1) s)) (k - 1)) as [Hlen|Hlen]; cbn [negb andb]; [|discriminate].
    rewrite int_from_bytes_be.
    2:{ cbn [wf_bytes]. rewrite wf_bytes_firstn by exact Hws. rewrite andb_true_r. apply N.ltb_lt. exact Hfirst. }
    2:{ cbn [length]. rewrite Hlen. lia. }
    unfold DECODE_SIZE_LIMIT.
    destruct (17179869184 <=? be_unsigned (first :: firstn (k - 1) s)); [discriminate|].
    destruct (N.of_nat (length (skipn (k - 1) s)) <? be_unsigned (first :: firstn (k - 1) s)); [discriminate|].
    intros H; inversion H; subst. split; [reflexivity|].
    apply wf_bytes_skipn. apply wf_bytes_skipn. exact Hws.
  - assert (Ek : k = 1%nat) by lia. subst first. clearbody k. subst k.
    cbn [andb Nat.sub firstn skipn length Nat.eqb negb].
    rewrite int_from_bytes_be.
    2:{ cbn [wf_bytes]. rewrite andb_true_r. apply N.ltb_lt. exact Hfirst. }
    2:{ cbn [length]. lia. }
    unfold DECODE_SIZE_LIMIT, stream_read.
    destruct (17179869184 <=? be_unsigned _); [discriminate|].
    destruct (N.of_nat (length s) <? be_unsigned _); [discriminate|].
    intros H; inversion H; subst. split; [reflexivity|]. apply wf_bytes_skipn. exact Hws.
Qed.

Lemma spec_decode_mono : forall g s r, spec_decode g s = Some r -> forall g', (g <= g')%nat -> spec_decode g' s = Some r.
Proof.
  induction g as [|g IH]; intros s r H g' Hle; [discriminate|].
  destruct g' as [|g']; [lia|]. cbn [spec_decode] in *.
  destruct s as [|b s']; [discriminate|].
  destruct (b =? 255); [|exact H].
  destruct (spec_decode g s') as [[l s1]|] eqn:E1; [|discriminate].
  rewrite (IH _ _ E1 g') by lia.
  destruct (spec_decode g s1) as [[r0 s2]|] eqn:E2; [|discriminate].
  rewrite (IH _ _ E2 g') by lia. exact H.
Qed.

Lemma strict_read : forall f ops vals s r,
  wf_bytes s = true -> dec_strict f (DRead :: ops) vals s = Some r ->
  exists v s1 f', (f' < f)%nat /\ (exists g, spec_decode g s = Some (v, s1)) /\
                  wf_bytes s1 = true /\ dec_strict f' ops (v :: vals) s1 = Some r.
Proof.
  induction f as [f IH] using (well_founded_induction lt_wf).
  intros ops vals s r Hw Hr. destruct f as [|f]; [discriminate|].
  cbn [dec_strict] in Hr. destruct s as [|b s0]; [discriminate|].
  unfold CONS_BOX_MARKER in Hr. destruct (N.eqb_spec b 255) as [->|Hb].
  - pose proof (wf_bytes_cons _ _ Hw) as [_ Hw0].
    destruct (IH f ltac:(lia) _ _ _ _ Hw0 Hr) as (l & s1 & f1 & Hf1 & [g1 Hg1] & Hw1 & H1).
    destruct (IH f1 ltac:(lia) _ _ _ _ Hw1 H1) as (r0 & s2 & f2 & Hf2 & [g2 Hg2] & Hw2 & H2).
    destruct f2 as [|f2]; [discriminate|]. cbn [dec_strict] in H2.
    exists (Cons l r0), s2, f2. split; [lia|]. split; [|split; [exact Hw2|exact H2]].
    exists (S (g1 + g2)). cbn [spec_decode]. change (255 =? 255) with true. cbv iota.
    rewrite (spec_decode_mono _ _ _ Hg1 (g1 + g2)%nat) by lia.
    rewrite (spec_decode_mono _ _ _ Hg2 (g1 + g2)%nat) by lia. reflexivity.
  - destruct (atom_from_stream b s0) as [[v|] s2] eqn:Ea; [|discriminate].
    destruct (atom_from_stream_sound b s0 v s2 Hw Hb Ea) as [Hs Hw2].
    exists v, s2, f. split; [lia|]. split; [|split; [exact Hw2|exact Hr]].
    exists 1%nat. cbn [spec_decode]. replace (b =? 255) with false by (symmetry; apply N.eqb_neq; exact Hb). exact Hs.
Qed.

Theorem decode_sound s v rest : wf_bytes s = true ->
  decode s = Some (v, rest) -> exists g, spec_decode g s = Some (v, rest).
Proof.
  intros Hw H. unfold decode in H.
  destruct (dec_run (3 * length s + 3) [DRead] [] s) as [[vals s']|] eqn:E; [|discriminate].
  destruct vals as [|v0 vs]; [discriminate|]. inversion H; subst v0 s'. clear H.
  pose proof (lenient_is_strict _ [DRead] [] s _ _ eq_refl E ltac:(discriminate)) as Hs.
  destruct (strict_read _ _ _ _ _ Hw Hs) as (v1 & s1 & f' & Hf & [g Hg] & Hw1 & H1).
  destruct f' as [|f']; [discriminate|]. cbn [dec_strict] in H1. inversion H1; subst.
  exists g. exact Hg.
Qed.

(* truncations of a valid encoding are rejected by the reference decoder, hence (decode_sound) never
   decoded to a value different from what consensus says: they are rejected by decode as well
   unless the reference accepts them *)

(* ---- truncation: no strict prefix of an encoding decodes ---- *)
Lemma firstn_app_le {A} n (a b : list A) : (n <= length a)%nat -> firstn n (a ++ b) = firstn n a.
Proof. intros H. rewrite firstn_app. replace (n - length a)%nat with 0%nat by lia. cbn. apply app_nil_r. Qed.
Lemma skipn_app_le {A} n (a b : list A) : (n <= length a)%nat -> skipn n (a ++ b) = skipn n a ++ b.
Proof. intros H. rewrite skipn_app. replace (n - length a)%nat with 0%nat by lia. reflexivity. Qed.

Lemma spec_decode_atom_extend b s t v r :
  spec_decode_atom b s = Some (v, r) -> spec_decode_atom b (s ++ t) = Some (v, r ++ t).
Proof.
  unfold spec_decode_atom. destruct (b <? 128); [intros H; inversion H; reflexivity|].
  set (k := leading_ones b). destruct (Nat.ltb 6 k); [discriminate|].
  destruct (Nat.eqb (length (firstn (k - 1) s)) (k - 1)) eqn:El; cbn [negb]; [|discriminate].
  apply Nat.eqb_eq in El.
  assert (Hk : (k - 1 <= length s)%nat).
  { rewrite firstn_length in El. lia. }
  rewrite (firstn_app_le (k - 1) s t Hk), (skipn_app_le (k - 1) s t Hk). rewrite El, Nat.eqb_refl. cbn [negb].
  set (size := be_unsigned (b - (256 - 2 ^ (8 - N.of_nat k)) :: firstn (k - 1) s)).
  destruct (17179869184 <=? size); [discriminate|].
  destruct (N.of_nat (length (skipn (k - 1) s)) <? size) eqn:Es; [discriminate|].
  apply N.ltb_ge in Es.
  assert (Hs : (N.to_nat size <= length (skipn (k - 1) s))%nat) by lia.
  assert (Es' : (N.of_nat (length (skipn (k - 1) s ++ t)) <? size) = false).
  { apply N.ltb_ge. rewrite app_length. lia. }
  rewrite Es'. rewrite (firstn_app_le _ _ t Hs), (skipn_app_le _ _ t Hs).
  intros H; inversion H; reflexivity.
Qed.

Lemma spec_decode_extend : forall g s t v r,
  spec_decode g s = Some (v, r) -> spec_decode g (s ++ t) = Some (v, r ++ t).
Proof.
  induction g as [|g IH]; intros s t v r H; [discriminate|].
  cbn [spec_decode] in *. destruct s as [|b s']; [discriminate|]. cbn [app].
  destruct (b =? 255).
  - destruct (spec_decode g s') as [[l s1]|] eqn:E1; [|discriminate].
    destruct (spec_decode g s1) as [[rr s2]|] eqn:E2; [|discriminate].
    inversion H; subst. rewrite (IH _ t _ _ E1), (IH _ t _ _ E2). reflexivity.
  - apply spec_decode_atom_extend. exact H.
Qed.

Lemma wf_bytes_app a b : wf_bytes (a ++ b) = true -> wf_bytes a = true.
Proof. induction a as [|x r IH]; cbn; [reflexivity|]. intros H. apply andb_true_iff in H. destruct H as [Hx Hr]. rewrite Hx, (IH Hr). reflexivity. Qed.

Theorem truncated_rejected v e p t :
  spec_encode v = Some e -> e = p ++ t -> t <> [] -> wf_bytes e = true -> decode p = None.
Proof.
  intros He Hp Ht Hwf. destruct (decode p) as [[v' rest']|] eqn:Ed; [exfalso|reflexivity].
  assert (Hwp : wf_bytes p = true) by (subst e; eapply wf_bytes_app; exact Hwf).
  destruct (decode_sound p v' rest' Hwp Ed) as [g Hg].
  pose proof (spec_decode_extend g p t v' rest' Hg) as Hx. rewrite <- Hp in Hx.
  pose proof (decode_encode v e [] He) as Hfull. rewrite app_nil_r in Hfull.
  destruct (decode_sound e v [] Hwf Hfull) as [g' Hg'].
  pose proof (spec_decode_mono g e _ Hx (Nat.max g g') (Nat.le_max_l _ _)) as A.
  pose proof (spec_decode_mono g' e _ Hg' (Nat.max g g') (Nat.le_max_r _ _)) as B.
  rewrite A in B. inversion B as [[Hv Hr]]. destruct rest'; destruct t; try discriminate. apply Ht. reflexivity.
Qed.
