(* classic/clvm/serialize.rs as written: atom_size_blob (from Gen/Consts.v), SExpToBytesIterator,
   atom_from_stream, sexp_from_stream (op stack / value stack machine whose per-op errors are
   ignored), Stream::read short reads; and the reference (consensus, clvmr serde) codec. *)
From CV Require Import Base.Prelude Base.Val Base.Bytes Gen.Consts.

(* ---------------- encoder ---------------- *)
Fixpoint pick_class (cs : list (N * (N -> list N))) (size : N) : option (list N) :=
  match cs with
  | [] => None
  | (bound, f) :: r => if size <? bound then Some (f size) else pick_class r size
  end.

(* Ok (original?, blob) / Err *)
Definition atom_size_blob (b : bytes) : option (bool * bytes) :=
  let size := N.of_nat (length b) in
  match b with
  | [] => Some (false, [EMPTY_ATOM_BYTE])
  | [x] => if x <=? MAX_SINGLE_BYTE then Some (false, b)
           else match pick_class size_classes size with Some p => Some (true, p) | None => None end
  | _ => match pick_class size_classes size with Some p => Some (true, p) | None => None end
  end.

Inductive enc_op := EBlob (b : bytes) | EObj (v : val).

(* Iterator::next repeated until the state is empty or next() returns None (oversize atom) *)
Fixpoint enc_run (fuel : nat) (st : list enc_op) (out : bytes) : option bytes :=
  match fuel with
  | O => None
  | S f =>
      match st with
      | [] => Some out
      | EBlob b :: st' => enc_run f st' (out ++ b)
      | EObj (Atom b) :: st' =>
          match atom_size_blob b with
          | Some (true, p) => enc_run f (EBlob b :: st') (out ++ p)
          | Some (false, p) => enc_run f st' (out ++ p)
          | None => Some out            (* iteration stops: truncated output *)
          end
      | EObj (Cons a d) :: st' => enc_run f (EObj a :: EObj d :: st') (out ++ [CONS_BOX_MARKER])
      end
  end.

Definition encode (v : val) : option bytes := enc_run (3 * val_size v + 3) [EObj v] [].

(* ---------------- decoder ---------------- *)
Definition stream_read (n : nat) (s : bytes) : bytes * bytes := (firstn n s, skipn n s).

(* while (b & bit_mask) != 0 { bit_count += 1; b ^= bit_mask; bit_mask >>= 1 } *)
Fixpoint strip_prefix (fuel : nat) (b mask count : N) : N * N :=
  match fuel with
  | O => (b, count)
  | S f => if N.land b mask =? 0 then (b, count)
           else strip_prefix f (N.lxor b mask) (N.shiftr mask 1) (count + 1)
  end.

(* result: (Some atom | None = error, remaining stream) *)
Definition atom_from_stream (b : N) (s : bytes) : option val * bytes :=
  if b =? DECODE_EMPTY_BYTE then (Some nilv, s)
  else if b <=? MAX_SINGLE_BYTE then (Some (Atom [b]), s)
  else
    let '(b', bit_count) := strip_prefix 9 b DECODE_BIT_MASK_INIT DECODE_BIT_COUNT_INIT in
    if (match DECODE_MAX_SIZE_BYTES with Some m => m <? bit_count | None => false end) then (None, s)
    else
    let extra := N.to_nat (bit_count - 1) in
    let '(bin, s1) := if 1 <? bit_count then stream_read extra s else ([], s) in
    if (1 <? bit_count) && negb (Nat.eqb (length bin) extra) then (None, s1)
    else
      match int_from_bytes (b' :: bin) with
      | None => (None, s1)
      | Some size =>
          if DECODE_SIZE_LIMIT <=? size then (None, s1)
          else if N.of_nat (length s1) <? size then (None, [])   (* short read: the stream is consumed to its end *)
          else
            let '(blob, s2) := stream_read (N.to_nat size) s1 in
            (Some (Atom blob), s2)
      end.

Inductive dec_op := DCons | DRead.

Fixpoint dec_run (fuel : nat) (ops : list dec_op) (vals : list val) (s : bytes) : option (list val * bytes) :=
  match fuel with
  | O => None
  | S f =>
      match ops with
      | [] => Some (vals, s)
      | DCons :: ops' =>
          match vals with
          | r :: l :: vs => dec_run f ops' (Cons l r :: vs) s
          | _ => dec_run f ops' [] s          (* a lone value is popped and lost *)
          end
      | DRead :: ops' =>
          match s with
          | [] => dec_run f ops' vals s       (* "bad encoding", ignored by the loop *)
          | b :: s' =>
              if b =? CONS_BOX_MARKER then dec_run f (DRead :: DRead :: DCons :: ops') vals s'
              else match atom_from_stream b s' with
                   | (Some v, s'') => dec_run f ops' (v :: vals) s''
                   | (None, s'') => dec_run f ops' vals s''
                   end
          end
      end
  end.

(* sexp_from_stream: Some (value, rest of stream) / None = error *)
Definition decode (s : bytes) : option (val * bytes) :=
  match dec_run (3 * length s + 3) [DRead] [] s with
  | Some (v :: _, rest) => Some (v, rest)
  | _ => None
  end.

(* ---------------- reference codec (clvmr serde format) ---------------- *)
Definition spec_prefix (size : N) : option bytes :=
  if size <? 64 then Some [128 + size]
  else if size <? 8192 then Some [192 + size / 256; size mod 256]
  else if size <? 1048576 then Some [224 + size / 65536; (size / 256) mod 256; size mod 256]
  else if size <? 134217728 then Some [240 + size / 16777216; (size / 65536) mod 256; (size / 256) mod 256; size mod 256]
  else if size <? 17179869184 then Some [248 + size / 4294967296; (size / 16777216) mod 256; (size / 65536) mod 256; (size / 256) mod 256; size mod 256]
  else None.

Definition spec_encode_atom (b : bytes) : option bytes :=
  match b with
  | [] => Some [128]
  | [x] => if x <? 128 then Some [x]
           else match spec_prefix 1 with Some p => Some (p ++ b) | None => None end
  | _ => match spec_prefix (N.of_nat (length b)) with Some p => Some (p ++ b) | None => None end
  end.

Fixpoint spec_encode (v : val) : option bytes :=
  match v with
  | Atom b => spec_encode_atom b
  | Cons a d => match spec_encode a, spec_encode d with
                | Some x, Some y => Some (255 :: x ++ y)
                | _, _ => None
                end
  end.

(* clvmr parse_atom::decode_size: leading ones of the first byte = number of size bytes (<= 6),
   size big-endian, < 0x400000000 *)
Definition leading_ones (b : N) : nat :=
  if b <? 128 then 0 else if b <? 192 then 1 else if b <? 224 then 2 else if b <? 240 then 3
  else if b <? 248 then 4 else if b <? 252 then 5 else if b <? 254 then 6 else if b <? 255 then 7 else 8.

Definition spec_decode_atom (b : N) (s : bytes) : option (val * bytes) :=
  if b <? 128 then Some (Atom [b], s)
  else
    let k := leading_ones b in
    if Nat.ltb 6 k then None
    else
      let first := b - (256 - 2 ^ (8 - N.of_nat k)) in
      let bin := firstn (k - 1) s in
      let s1 := skipn (k - 1) s in
      if negb (Nat.eqb (length bin) (k - 1)) then None
      else
        let size := be_unsigned (first :: bin) in
        if 17179869184 <=? size then None
        else if N.of_nat (length s1) <? size then None
        else Some (Atom (firstn (N.to_nat size) s1), skipn (N.to_nat size) s1).

Fixpoint spec_decode (fuel : nat) (s : bytes) : option (val * bytes) :=
  match fuel with
  | O => None
  | S f =>
      match s with
      | [] => None
      | b :: s' =>
          if b =? 255 then
            match spec_decode f s' with
            | Some (l, s1) => match spec_decode f s1 with
                              | Some (r, s2) => Some (Cons l r, s2)
                              | None => None end
            | None => None
            end
          else spec_decode_atom b s'
      end
  end.
