From CV Require Import Base.Prelude Gen.Consts Sys.Deps.

Lemma record_embed : DEPS_RECORD_EMBED = true.
Proof. reflexivity. Qed.

Theorem reads_subset_deps : forall fuel fs search ds x,
  In x (reads fuel fs search ds) -> In x (deps fuel fs search ds).
Proof.
  induction fuel as [|f IH]; intros fs search ds x H; [contradiction|].
  cbn [reads deps] in *. apply in_flat_map in H. destruct H as (dct & Hin & Hx).
  apply in_flat_map. exists dct. split; [exact Hin|].
  destruct dct as [n|n|]; [| |contradiction].
  - destruct (resolve fs search n) as [[d c]|]; [|contradiction].
    destruct Hx as [<-|Hx]; [left; reflexivity|right; apply IH; exact Hx].
  - rewrite record_embed. exact Hx.
Qed.

Lemma resolve_first fs search n d c : resolve fs search n = Some (d, c) ->
  exists before after, search = before ++ d :: after /\ fs d n = Some c /\
    forall d', In d' before -> fs d' n = None.
Proof.
  induction search as [|d0 r IH]; cbn [resolve]; [discriminate|].
  destruct (fs d0 n) as [c0|] eqn:E.
  - intros H; inversion H; subst. exists [], r. split; [reflexivity|]. split; [exact E|]. intros d' [].
  - intros H. destruct (IH H) as (b & a & -> & Hc & Hb). exists (d0 :: b), a.
    split; [reflexivity|]. split; [exact Hc|]. intros d' [<-|Hin]; [exact E|apply Hb; exact Hin].
Qed.

(* every listed name is the first match in search-path order: never a later file of the same name *)
Theorem deps_first_match : forall fuel fs search ds d n,
  In (d, n) (deps fuel fs search ds) ->
  exists c before after, resolve fs search n = Some (d, c) /\ search = before ++ d :: after /\
    forall d', In d' before -> fs d' n = None.
Proof.
  induction fuel as [|f IH]; intros fs search ds d n H; [contradiction|].
  cbn [deps] in H. apply in_flat_map in H. destruct H as (dct & _ & Hx).
  destruct dct as [m|m|]; [| |contradiction].
  - destruct (resolve fs search m) as [[d0 c]|] eqn:E; [|contradiction].
    destruct Hx as [Hx|Hx].
    + inversion Hx; subst. destruct (resolve_first _ _ _ _ _ E) as (b & a & Hs & _ & Hb).
      exists c, b, a. repeat split; assumption.
    + apply (IH _ _ _ _ _ Hx).
  - destruct DEPS_RECORD_EMBED; [|contradiction].
    destruct (resolve fs search m) as [[d0 c]|] eqn:E; [|contradiction].
    destruct Hx as [Hx|[]]. inversion Hx; subst.
    destruct (resolve_first _ _ _ _ _ E) as (b & a & Hs & _ & Hb).
    exists c, b, a. repeat split; assumption.
Qed.
