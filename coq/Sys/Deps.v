(* compiler/preprocessor/mod.rs include handling as an include-graph model: files are lists of
   directives, names are resolved against an ordered search path (read_new_file: first directory that
   has the file), the compilation's traversal reads includes recursively and embedded files once,
   recurse_dependencies records what it resolves. Whether embedded files are recorded is taken from
   the source by the translator (Gen/Consts.v DEPS_RECORD_EMBED). Pseudo-files (dialect names and
   the stock macros) never touch the disk and are not part of the model. *)
From CV Require Import Base.Prelude Gen.Consts.

Definition fname := nat.
Definition dir := nat.
Inductive directive := DInclude (n : fname) | DEmbed (n : fname) | DOther.
Definition fsys := dir -> fname -> option (list directive).

Fixpoint resolve (fs : fsys) (search : list dir) (n : fname) : option (dir * list directive) :=
  match search with
  | [] => None
  | d :: r => match fs d n with Some c => Some (d, c) | None => resolve fs r n end
  end.

(* what the compilation reads (process_include / process_embed) *)
Fixpoint reads (fuel : nat) (fs : fsys) (search : list dir) (ds : list directive) : list (dir * fname) :=
  match fuel with
  | O => []
  | S f =>
      flat_map (fun x =>
        match x with
        | DInclude n => match resolve fs search n with
                        | Some (d, c) => (d, n) :: reads f fs search c
                        | None => []
                        end
        | DEmbed n => match resolve fs search n with Some (d, _) => [(d, n)] | None => [] end
        | DOther => []
        end) ds
  end.

(* what recurse_dependencies records *)
Fixpoint deps (fuel : nat) (fs : fsys) (search : list dir) (ds : list directive) : list (dir * fname) :=
  match fuel with
  | O => []
  | S f =>
      flat_map (fun x =>
        match x with
        | DInclude n => match resolve fs search n with
                        | Some (d, c) => (d, n) :: deps f fs search c
                        | None => []
                        end
        | DEmbed n => if DEPS_RECORD_EMBED then
                        match resolve fs search n with Some (d, _) => [(d, n)] | None => [] end
                      else []
        | DOther => []
        end) ds
  end.
