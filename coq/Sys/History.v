(* The process-global state the compiler touches, as a state machine over compile histories:
   compiler/gensym.rs ARGNAME_CTR (a counter that only grows) and compiler/clvm.rs
   NewStyleIntConversion (a per-thread mode set by a guard that restores the previous value when it is
   dropped, on every exit path: normal return, error return, unwinding). A compilation of dialect d
   runs its body (which may draw fresh names, run nested compilations - includes, nested mod, compile-file
   - and may fail) under the guard for int_fix d. *)
From CV Require Import Base.Prelude.

Record gstate := mkG { ctr : nat; mode : bool }.

(* a history: what one thread does, in order *)
Inductive act :=
| Gensym                                   (* draw one fresh name *)
| SetMode (b : bool)                       (* foreign code flips the mode and leaves it (e.g. a leaked guard) *)
| Compile (int_fix : bool) (body : list act) (fails : bool).   (* a compilation, ok or failing *)

(* observations: the mode each compile body ran under *)
Fixpoint run_act (a : act) (s : gstate) (obs : list (bool * bool)) {struct a} : gstate * list (bool * bool) :=
  match a with
  | Gensym => (mkG (S (ctr s)) (mode s), obs)
  | SetMode b => (mkG (ctr s) b, obs)
  | Compile fx body _ =>
      let saved := mode s in
      let s1 := mkG (ctr s) fx in                     (* NewStyleIntConversion::new(fx) *)
      let '(s2, obs2) :=
        (fix go (l : list act) (st : gstate) (o : list (bool * bool)) : gstate * list (bool * bool) :=
           match l with
           | [] => (st, o)
           | x :: r => let '(st', o') := run_act x st o in go r st' o'
           end) body s1 ((fx, mode s1) :: obs) in
      (mkG (ctr s2) saved, obs2)                      (* Drop restores, whether the body failed or not *)
  end.

Fixpoint run_hist (h : list act) (s : gstate) (obs : list (bool * bool)) : gstate * list (bool * bool) :=
  match h with
  | [] => (s, obs)
  | x :: r => let '(s', o') := run_act x s obs in run_hist r s' o'
  end.
