From CV Require Import Base.Prelude Sys.AtomicWrite.

Section P.
Variable trim : content -> content.
Variable content_eqb : content -> content -> bool.
Notation step_proc := (step_proc trim content_eqb).
Notation step := (step trim content_eqb).
Notation run := (run trim content_eqb).

(* per-process invariant: a temp ready to be renamed holds exactly the call's data; a process that
   reports Err or Ok without renaming has no effect on the target; the same flag is only ever set by gentle calls *)
Definition proc_ok (p : proc) : Prop :=
  (ppc p = PReady -> ptemp p = Some (pdata p)) /\
  (psame p = true -> pgentle p = true) /\
  (forall ok, ppc p = PDone ok -> psame p = true -> ok = true).

Definition allowed (prev : option content) (ps : list proc) (t : option content) : Prop :=
  t = prev \/ exists p, In p ps /\ t = Some (pdata p).

Lemma firstn_full {A} (l : list A) n : (length l <= length (firstn n l))%nat -> firstn n l = l.
Proof.
  intros H. rewrite firstn_length in H. apply firstn_all2. lia.
Qed.

Lemma step_proc_ok tgt p a : proc_ok p ->
  let '(t', p') := step_proc tgt p a in
  proc_ok p' /\ pdata p' = pdata p /\ (t' = tgt \/ t' = Some (pdata p)).
Proof.
  intros (H1 & H2 & H3). unfold step_proc, finish.
  destruct (ppc p) eqn:Epc; destruct a as [n| |].
  all: try solve [split; [split; [cbn; intros; try discriminate; try assumption; auto
                               | split; [cbn; intros; try discriminate; auto
                                        | cbn; intros ok Hd Hs; try discriminate; inversion Hd; subst; auto]]
                         | split; [reflexivity | left; reflexivity]]].
  all: try solve [split; [split; [rewrite Epc; intros; discriminate | split; [assumption|exact H3]] | split; [reflexivity | left; reflexivity]]].
  all: try solve [split; [unfold proc_ok; rewrite Epc; exact (conj H1 (conj H2 H3)) | split; [reflexivity | left; reflexivity]]].
  - (* PStart Advance *)
    split; [split; [cbn; intros; discriminate|split; [|cbn; intros; discriminate]]|split; [reflexivity|left; reflexivity]].
    cbn. destruct (pgentle p) eqn:G; [reflexivity|intros; discriminate].
  - (* PWriting Advance *)
    destruct (Nat.leb_spec (length (pdata p)) (length (firstn (match ptemp p with Some t => length t | None => 0%nat end + S n) (pdata p)))) as [Hle|Hlt].
    + split; [split; [cbn; intros _; f_equal; apply firstn_full; exact Hle | split; [cbn; exact H2|cbn; intros; discriminate]] | split; [reflexivity | left; reflexivity]].
    + split; [split; [cbn; intros; discriminate | split; [cbn; exact H2|cbn; intros; discriminate]] | split; [reflexivity | left; reflexivity]].
  - (* PReady Advance: rename *)
    split; [split; [cbn; intros; discriminate | split; [cbn; exact H2|cbn; intros ok Hd _; inversion Hd; reflexivity]] | split; [reflexivity | right; apply H1; reflexivity]].
Qed.

Lemma update_in {A} (l : list A) i x y : In y (update l i x) -> y = x \/ In y l.
Proof.
  revert i; induction l as [|z r IH]; intros i H; [contradiction|].
  destruct i as [|j]; cbn in H.
  - destruct H as [<-|H]; [left; reflexivity|right; right; exact H].
  - destruct H as [<-|H]; [right; left; reflexivity|]. destruct (IH j H); [left; assumption|right; right; assumption].
Qed.

Lemma update_datas (l : list proc) i p p' : nth_error l i = Some p -> pdata p' = pdata p ->
  map pdata (update l i p') = map pdata l.
Proof.
  revert i; induction l as [|z r IH]; intros i H E; [reflexivity|].
  destruct i as [|j]; cbn in *.
  - inversion H; subst. rewrite E. reflexivity.
  - rewrite (IH j H E). reflexivity.
Qed.

Definition Inv (prev : option content) (datas : list content) (s : state) : Prop :=
  (forall p, In p (procs s) -> proc_ok p) /\
  map pdata (procs s) = datas /\
  (target s = prev \/ exists d, In d datas /\ target s = Some d).

Lemma inv_step prev datas s ev : Inv prev datas s -> Inv prev datas (step s ev).
Proof.
  intros (Hp & Hd & Ht). destruct ev as [i a]. unfold step.
  destruct (nth_error (procs s) i) as [p|] eqn:En; [|exact (conj Hp (conj Hd Ht))].
  pose proof (step_proc_ok (target s) p a (Hp p (nth_error_In _ _ En))) as S.
  destruct (step_proc (target s) p a) as [t' p']. destruct S as (Hok & Hdata & Htgt).
  split; [|split]; cbn [procs target].
  - intros q Hq. destruct (update_in _ _ _ _ Hq) as [->|Hin]; [exact Hok|exact (Hp q Hin)].
  - rewrite (update_datas _ _ _ _ En Hdata). exact Hd.
  - destruct Htgt as [->| ->]; [exact Ht|].
    right. exists (pdata p). split; [|reflexivity]. rewrite <- Hd. apply in_map. exact (nth_error_In _ _ En).
Qed.

Lemma inv_init prev calls : Inv prev (map fst calls) (init_state prev calls).
Proof.
  unfold init_state. split; [|split]; cbn [procs target].
  - intros p H. apply in_map_iff in H. destruct H as ([d g] & <- & _).
    split; [|split]; cbn; intros; discriminate.
  - rewrite map_map. apply map_ext. intros [d g]. reflexivity.
  - left. reflexivity.
Qed.

(* at every instant of every schedule, with crashes and failures anywhere, the target holds its
   previous contents or the complete data of one of the calls *)
Theorem atomic_always prev calls evs :
  let s := run (init_state prev calls) evs in
  target s = prev \/ exists d, In d (map fst calls) /\ target s = Some d.
Proof.
  cbv zeta. assert (H : Inv prev (map fst calls) (run (init_state prev calls) evs)).
  { unfold run. generalize (inv_init prev calls). generalize (init_state prev calls).
    induction evs as [|ev r IH]; intros s Hs; cbn [fold_left]; [exact Hs|]. apply IH. apply inv_step. exact Hs. }
  exact (proj2 (proj2 H)).
Qed.

(* a call that found the same (trimmed) contents succeeds whatever fails afterwards *)
Theorem gentle_same_ok prev calls evs p ok :
  In p (procs (run (init_state prev calls) evs)) -> ppc p = PDone ok -> psame p = true -> ok = true.
Proof.
  assert (H : Inv prev (map fst calls) (run (init_state prev calls) evs)).
  { unfold run. generalize (inv_init prev calls). generalize (init_state prev calls).
    induction evs as [|ev r IH]; intros s Hs; cbn [fold_left]; [exact Hs|]. apply IH. apply inv_step. exact Hs. }
  intros Hin. exact (proj2 (proj2 (proj1 H p Hin)) ok).
Qed.

End P.
