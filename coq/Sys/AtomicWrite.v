(* util/mod.rs atomic_write_file / gentle_overwrite as a transition system over a directory with one
   target path, for N processes interleaved arbitrarily, with crash and failure injection.
   Steps of one process (the hook points and the syscalls observed by the check):
     Start --(gentle: read target, compare trimmed)--> Create --(openat O_CREAT|O_EXCL in the same
     directory)--> Writing --(write chunks to the temp fd)*--> Ready --(renameat temp target)--> Done.
   A failing step removes the temp (NamedTempFile drop) and ends the call with Err, or Ok when gentle
   found the same trimmed content. A crash stops the process where it is; its temp stays.
   Assumed, not modelled: rename(2) replaces the target atomically; durability across power loss. *)
From CV Require Import Base.Prelude.

Definition content := list N.

Inductive pc :=
| PStart | PCreate | PWriting | PReady | PDone (ok : bool) | PCrashed.

Record proc := mkProc {
  pdata : content;        (* what this call writes *)
  pgentle : bool;         (* gentle_overwrite (true) or atomic_write_file (false) *)
  psame : bool;           (* gentle_overwrite saw the same trimmed content *)
  ppc : pc;
  ptemp : option content  (* this process's temporary file, if it exists *)
}.

Record state := mkState { target : option content; procs : list proc }.

Inductive action := Advance (chunk : nat) | FailOp | Crash.

Section TS.
Variable trim : content -> content.
Variable content_eqb : content -> content -> bool.

Definition finish (p : proc) : proc :=
  mkProc (pdata p) (pgentle p) (psame p) (PDone (psame p)) None.

Definition step_proc (tgt : option content) (p : proc) (a : action) : option content * proc :=
  match ppc p, a with
  | PDone _, _ => (tgt, p)
  | PCrashed, _ => (tgt, p)
  | _, Crash => (tgt, mkProc (pdata p) (pgentle p) (psame p) PCrashed (ptemp p))
  | PStart, FailOp => (tgt, p)     (* reading the previous content cannot fail the call *)
  | PStart, Advance _ =>
      let same := if pgentle p then
                    match tgt with Some c => content_eqb (trim c) (trim (pdata p)) | None => false end
                  else false in
      (tgt, mkProc (pdata p) (pgentle p) same PCreate None)
  | PCreate, Advance _ => (tgt, mkProc (pdata p) (pgentle p) (psame p) PWriting (Some []))
  | PCreate, FailOp => (tgt, finish p)
  | PWriting, Advance n =>
      let have := match ptemp p with Some t => length t | None => O end in
      let t' := firstn (have + S n) (pdata p) in
      if Nat.leb (length (pdata p)) (length t')
      then (tgt, mkProc (pdata p) (pgentle p) (psame p) PReady (Some t'))
      else (tgt, mkProc (pdata p) (pgentle p) (psame p) PWriting (Some t'))
  | PWriting, FailOp => (tgt, finish p)
  | PReady, Advance _ => (ptemp p, mkProc (pdata p) (pgentle p) (psame p) (PDone true) None)   (* rename temp -> target *)
  | PReady, FailOp => (tgt, finish p)
  end.

Fixpoint update {A} (l : list A) (i : nat) (x : A) : list A :=
  match l, i with
  | [], _ => []
  | _ :: r, O => x :: r
  | y :: r, S j => y :: update r j x
  end.

Definition step (s : state) (ev : nat * action) : state :=
  let '(i, a) := ev in
  match nth_error (procs s) i with
  | None => s
  | Some p => let '(t', p') := step_proc (target s) p a in mkState t' (update (procs s) i p')
  end.

Definition run (s : state) (evs : list (nat * action)) : state := fold_left step evs s.

Definition fresh (d : content) (g : bool) : proc := mkProc d g false PStart None.
Definition init_state (prev : option content) (calls : list (content * bool)) : state :=
  mkState prev (map (fun '(d, g) => fresh d g) calls).

End TS.
