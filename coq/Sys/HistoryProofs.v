From CV Require Import Base.Prelude Sys.History.

(* induction principle for the nested act type *)
Section ActInd.
  Variable P : act -> Prop.
  Hypothesis Hg : P Gensym.
  Hypothesis Hs : forall b, P (SetMode b).
  Hypothesis Hc : forall fx body fails, Forall P body -> P (Compile fx body fails).
  Fixpoint act_ind' (a : act) : P a :=
    match a with
    | Gensym => Hg
    | SetMode b => Hs b
    | Compile fx body fails =>
        Hc fx body fails
          ((fix go (l : list act) : Forall P l :=
              match l with [] => Forall_nil P | x :: r => Forall_cons x (act_ind' x) (go r) end) body)
    end.
End ActInd.

Fixpoint no_setmode (a : act) : bool :=
  match a with
  | Gensym => true
  | SetMode _ => false
  | Compile _ body _ => forallb no_setmode body
  end.

(* the inner loop of a compile body, named *)
Fixpoint run_list (l : list act) (st : gstate) (o : list (bool * bool)) : gstate * list (bool * bool) :=
  match l with
  | [] => (st, o)
  | x :: r => let '(st', o') := run_act x st o in run_list r st' o'
  end.

Lemma run_act_compile fx body fails s obs :
  run_act (Compile fx body fails) s obs =
    let '(s2, obs2) := run_list body (mkG (ctr s) fx) ((fx, fx) :: obs) in (mkG (ctr s2) (mode s), obs2).
Proof.
  cbn [run_act mode]. 
  assert (E : forall l st o,
    (fix go (l : list act) (st : gstate) (o : list (bool * bool)) : gstate * list (bool * bool) :=
       match l with [] => (st, o) | x :: r => let '(st', o') := run_act x st o in go r st' o' end) l st o
    = run_list l st o).
  { induction l as [|x r IH]; intros st o; cbn; [reflexivity|]. destruct (run_act x st o). apply IH. }
  rewrite E. reflexivity.
Qed.

(* 1. a compilation leaves the mode as it found it, whatever it nests and whether or not it fails *)
Theorem compile_restores_mode : forall fx body fails s obs,
  mode (fst (run_act (Compile fx body fails) s obs)) = mode s.
Proof.
  intros. rewrite run_act_compile. destruct (run_list body _ _). reflexivity.
Qed.

(* 2. every compile body observes the mode of its own dialect at its start, whatever the history *)
Theorem compile_sees_own_mode : forall a s obs,
  (forall o, In o obs -> fst o = snd o) ->
  forall o, In o (snd (run_act a s obs)) -> fst o = snd o.
Proof.
  induction a as [|b|fx body fails IHb] using act_ind'; intros s obs Hobs o Hin.
  - cbn in Hin. apply Hobs. exact Hin.
  - cbn in Hin. apply Hobs. exact Hin.
  - rewrite run_act_compile in Hin.
    assert (G : forall l st ob, Forall (fun a => forall s obs, (forall o, In o obs -> fst o = snd o) ->
                    forall o, In o (snd (run_act a s obs)) -> fst o = snd o) l ->
                (forall o, In o ob -> fst o = snd o) ->
                forall o, In o (snd (run_list l st ob)) -> fst o = snd o).
    { induction l as [|x r IH]; intros st ob HF Hob o0 Ho; cbn [run_list] in Ho; [apply Hob; exact Ho|].
      inversion HF as [|? ? Hx Hr]; subst.
      destruct (run_act x st ob) as [st' o'] eqn:E.
      apply (IH st' o' Hr); [|exact Ho].
      intros o1 H1. apply (Hx st ob Hob). rewrite E. exact H1. }
    destruct (run_list body (mkG (ctr s) fx) ((fx, fx) :: obs)) as [s2 obs2] eqn:E.
    cbn [snd] in Hin.
    apply (G body (mkG (ctr s) fx) ((fx, fx) :: obs) IHb); [|rewrite E; exact Hin].
    intros o1 [<-|H1]; [reflexivity|apply Hobs; exact H1].
Qed.

(* 3. the fresh-name counter only grows, so names drawn in one compilation are distinct from all
      earlier ones whatever value it started from *)
Theorem counter_monotone : forall a s obs, (ctr s <= ctr (fst (run_act a s obs)))%nat.
Proof.
  induction a as [|b|fx body fails IHb] using act_ind'; intros s obs.
  - cbn. lia.
  - cbn. lia.
  - rewrite run_act_compile.
    assert (G : forall l st ob, Forall (fun a => forall s obs, (ctr s <= ctr (fst (run_act a s obs)))%nat) l ->
                (ctr st <= ctr (fst (run_list l st ob)))%nat).
    { induction l as [|x r IH]; intros st ob HF; cbn [run_list]; [cbn; lia|].
      inversion HF as [|? ? Hx Hr]; subst. specialize (Hx st ob).
      destruct (run_act x st ob) as [st' o'] eqn:E. cbn [fst] in Hx.
      specialize (IH st' o' Hr). lia. }
    specialize (G body (mkG (ctr s) fx) ((fx, fx) :: obs) IHb).
    destruct (run_list body _ _) as [s2 o2]. cbn in *. exact G.
Qed.
