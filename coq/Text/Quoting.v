(* Quoting and hex spelling of atoms in both syntaxes, and the readers' inverse functions:
   - modern printer (compiler/sexp.rs Display for SExp::QuotedString: printable -> "..." with
     escape_quote(q, s), otherwise 0x + hex) and modern reader (QuotedText / QuotedEscaped states,
     from_hex);
   - classic writer (ir/writer.rs -> Bytes::to_formal_string = pybytes_repr(b, dquoted = true,
     full_repr = FORMAL_STRING_FULL_REPR from the source)) and classic reader (ir/reader.rs
     consume_quoted). *)
From CV Require Import Base.Prelude Base.Val Base.NLemmas Gen.Consts.
From Coq Require Import ZifyN ZifyNat ZifyBool.
Ltac Zify.zify_post_hook ::= Z.div_mod_to_equations.

Definition BS : N := 92.    (* backslash *)
Definition DQ : N := 34.    (* double quote *)

(* insert a backslash before every character for which esc is true *)
Fixpoint escape (esc : N -> bool) (s : bytes) : bytes :=
  match s with
  | [] => []
  | c :: r => if esc c then BS :: c :: escape esc r else c :: escape esc r
  end.

(* the readers' loop: a backslash makes the next character literal, the terminator ends the string *)
Fixpoint read_quoted (fuel : nat) (term : N) (text : bytes) (acc : bytes) : option (bytes * bytes) :=
  match fuel with
  | O => None
  | S f =>
      match text with
      | [] => None                                   (* unterminated *)
      | c :: r =>
          if c =? BS then
            match r with
            | [] => None
            | d :: r' => read_quoted f term r' (acc ++ [d])
            end
          else if c =? term then Some (acc, r)
          else read_quoted f term r (acc ++ [c])
      end
  end.

Lemma read_quoted_escape : forall esc term s rest acc fuel,
  (forall c, In c s -> c = term -> esc c = true) ->
  (forall c, In c s -> c = BS -> esc c = true) ->
  term <> BS ->
  (2 * length s + 1 <= fuel)%nat ->
  read_quoted fuel term (escape esc s ++ term :: rest) acc = Some (acc ++ s, rest).
Proof.
  intros esc term. induction s as [|c r IH]; intros rest acc fuel Ht Hb Hne Hf.
  - destruct fuel as [|f]; [cbn in Hf; lia|]. cbn [escape app read_quoted].
    replace (term =? BS) with false by (symmetry; apply N.eqb_neq; exact Hne).
    rewrite N.eqb_refl. rewrite app_nil_r. reflexivity.
  - destruct fuel as [|f]; [cbn in Hf; lia|]. cbn [escape].
    destruct (esc c) eqn:Ec.
    + cbn [app read_quoted]. rewrite N.eqb_refl.
      rewrite IH; [rewrite <- app_assoc; reflexivity| | |exact Hne|cbn in Hf; lia].
      * intros c0 Hin. apply Ht. right. exact Hin.
      * intros c0 Hin. apply Hb. right. exact Hin.
    + cbn [app read_quoted].
      assert (Hcb : c <> BS) by (intros E; rewrite (Hb c (or_introl eq_refl) E) in Ec; discriminate).
      assert (Hct : c <> term) by (intros E; rewrite (Ht c (or_introl eq_refl) E) in Ec; discriminate).
      replace (c =? BS) with false by (symmetry; apply N.eqb_neq; exact Hcb).
      replace (c =? term) with false by (symmetry; apply N.eqb_neq; exact Hct).
      rewrite IH; [rewrite <- app_assoc; reflexivity| | |exact Hne|cbn in Hf; lia].
      * intros c0 Hin. apply Ht. right. exact Hin.
      * intros c0 Hin. apply Hb. right. exact Hin.
Qed.

(* ---------------- hex ---------------- *)
Definition hexdigit (d : N) : N := if d <? 10 then 48 + d else 87 + d.     (* '0'.. / 'a'.. *)
Definition unhexdigit (c : N) : option N :=
  if (48 <=? c) && (c <=? 57) then Some (c - 48)
  else if (97 <=? c) && (c <=? 102) then Some (c - 87)
  else if (65 <=? c) && (c <=? 70) then Some (c - 55)
  else None.

Fixpoint hex_encode (s : bytes) : bytes :=
  match s with [] => [] | b :: r => hexdigit (b / 16) :: hexdigit (b mod 16) :: hex_encode r end.
Fixpoint hex_decode (t : bytes) : option bytes :=
  match t with
  | [] => Some []
  | h :: l :: r => match unhexdigit h, unhexdigit l, hex_decode r with
                   | Some a, Some b, Some rest => Some (a * 16 + b :: rest)
                   | _, _, _ => None
                   end
  | [_] => None
  end.

Lemma unhex_hex d : d < 16 -> unhexdigit (hexdigit d) = Some d.
Proof.
  intros H. unfold hexdigit, unhexdigit.
  destruct (N.ltb_spec d 10).
  - replace ((48 <=? 48 + d) && (48 + d <=? 57)) with true by (symmetry; apply andb_true_iff; split; apply N.leb_le; lia).
    f_equal. lia.
  - replace ((48 <=? 87 + d) && (87 + d <=? 57)) with false by (symmetry; apply andb_false_iff; right; apply N.leb_gt; lia).
    replace ((97 <=? 87 + d) && (87 + d <=? 102)) with true by (symmetry; apply andb_true_iff; split; apply N.leb_le; lia).
    f_equal. lia.
Qed.

Theorem hex_roundtrip : forall s, wf_bytes s = true -> hex_decode (hex_encode s) = Some s.
Proof.
  induction s as [|b r IH]; intros Hw; [reflexivity|].
  cbn [wf_bytes] in Hw. apply andb_true_iff in Hw. destruct Hw as [Hb Hr]. apply N.ltb_lt in Hb.
  cbn [hex_encode hex_decode]. rewrite !unhex_hex by lia. rewrite (IH Hr). f_equal. f_equal. lia.
Qed.

(* ---------------- modern printer / reader for quoted strings ---------------- *)
Definition printable_char_q (ch : N) : bool :=
  negb ((ch <? 32) || (126 <? ch) || (ch =? DQ) || (ch =? BS)).
Definition printable_q (s : bytes) : bool := forallb printable_char_q s.

Inductive token := TQuoted (body : bytes) | THex (digits : bytes).

(* Display for SExp::QuotedString(q, s) *)
Definition print_quoted (q : N) (s : bytes) : token :=
  if printable_q s then TQuoted (escape (fun c => c =? q) s) else THex (hex_encode s).

(* the reader on that token: the text between the double quotes, or the hex digits after 0x *)
Definition read_token (t : token) : option bytes :=
  match t with
  | TQuoted body => match read_quoted (2 * length body + 3) DQ (body ++ [DQ]) [] with
                    | Some (s, []) => Some s
                    | _ => None
                    end
  | THex d => hex_decode d
  end.

Lemma escape_length esc s : (length (escape esc s) <= 2 * length s)%nat.
Proof. induction s as [|c r IH]; cbn; [lia|]. destruct (esc c); cbn; lia. Qed.

Lemma printable_no_dq_bs s c : printable_q s = true -> In c s -> c <> DQ /\ c <> BS.
Proof.
  unfold printable_q. rewrite forallb_forall. intros H Hin. specialize (H c Hin).
  unfold printable_char_q in H. apply negb_true_iff in H.
  apply orb_false_iff in H. destruct H as [H Hbs]. apply orb_false_iff in H. destruct H as [_ Hdq].
  apply N.eqb_neq in Hbs, Hdq. split; assumption.
Qed.

(* what the modern printer writes for a quoted string / hex constant, the modern reader reads back *)
Theorem modern_quoted_roundtrip : forall q s, wf_bytes s = true -> read_token (print_quoted q s) = Some s.
Proof.
  intros q s Hw. unfold print_quoted. destruct (printable_q s) eqn:Hp.
  - cbn [read_token].
    (* fuel: 2 * |escape| + 3 >= 2 * |s| + 1 ; read_quoted_escape wants escape of s with its own fuel *)
    assert (H := read_quoted_escape (fun c => c =? q) DQ s [] [] (2 * length (escape (fun c => c =? q) s) + 3)).
    cbn [app] in H. rewrite H; [reflexivity| | | |].
    + intros c Hin E. subst c. exfalso. exact (proj1 (printable_no_dq_bs s DQ Hp Hin) eq_refl).
    + intros c Hin E. subst c. exfalso. exact (proj2 (printable_no_dq_bs s BS Hp Hin) eq_refl).
    + discriminate.
    + assert (length s <= length (escape (fun c => N.eqb c q) s))%nat.
      { clear. induction s as [|c r IH]; cbn; [lia|]. destruct (N.eqb c q); cbn; lia. }
      lia.
  - cbn [read_token]. apply hex_roundtrip. exact Hw.
Qed.

(* ---------------- classic writer / reader for quoted atoms ---------------- *)
(* pybytes_repr(b, dquoted = true, full_repr) restricted to the characters ir_for_atom lets through
   (binutils.rs PRINTABLE_CHARS: no control characters, no double quote, nothing >= 0x7f) *)
Definition classic_printable_char (c : N) : bool := (32 <=? c) && (c <? 127) && negb (c =? DQ).
Definition classic_printable (s : bytes) : bool := forallb classic_printable_char s.

Definition formal_string_body (s : bytes) : bytes :=
  escape (fun c => (c =? DQ) || ((c =? BS) && FORMAL_STRING_FULL_REPR)) s.

Definition classic_read_quoted (body : bytes) : option bytes :=
  match read_quoted (2 * length body + 3) DQ (body ++ [DQ]) [] with
  | Some (s, []) => Some s
  | _ => None
  end.

Lemma full_repr_on : FORMAL_STRING_FULL_REPR = true.
Proof. reflexivity. Qed.

Theorem classic_quoted_roundtrip : forall s, classic_printable s = true ->
  classic_read_quoted (formal_string_body s) = Some s.
Proof.
  intros s Hp. unfold classic_read_quoted, formal_string_body.
  set (esc := fun c => (c =? DQ) || ((c =? BS) && FORMAL_STRING_FULL_REPR)).
  assert (H := read_quoted_escape esc DQ s [] [] (2 * length (escape esc s) + 3)).
  cbn [app] in H. rewrite H; [reflexivity| | | |].
  - intros c _ E. subst c. subst esc. cbn. reflexivity.
  - intros c _ E. subst c. subst esc. cbv beta. rewrite full_repr_on.
    replace (BS =? DQ) with false by reflexivity. rewrite N.eqb_refl. reflexivity.
  - discriminate.
  - assert (length s <= length (escape esc s))%nat.
    { clear. induction s as [|c r IH]; cbn; [lia|]. destruct (esc c); cbn; lia. }
    lia.
Qed.
