(* compiler/srcloc.rs: locations, advance, ext (combine_src_location / add_onto), and the reader's
   span bookkeeping for barewords and quoted strings (compiler/sexp.rs parse_sexp_step). *)
From CV Require Import Base.Prelude.

Record loc := mkLoc { line : nat; col : nat; until : option (nat * nat) }.

Definition loc_min (a : loc) : nat * nat := (line a, col a).
Definition loc_max (a : loc) : nat * nat :=
  match until a with None => (line a, S (col a)) | Some u => u end.

Definition add_onto (x y : loc) : loc := mkLoc (line x) (col x) (Some (loc_max y)).

Definition ext (a b : loc) : loc :=
  if Nat.ltb (line a) (line b) then add_onto a b
  else if Nat.eqb (line a) (line b) then
    (if Nat.ltb (col a) (col b) then add_onto a b
     else if Nat.eqb (col a) (col b) then a
     else add_onto b a)
  else add_onto b a.

(* Srcloc::advance, tab-free text *)
Definition advance (cur : loc) (ch : N) : loc :=
  if ch =? 10 then mkLoc (S (line cur)) 1 (until cur) else mkLoc (line cur) (S (col cur)) (until cur).

(* the cursor is a point location *)
Definition point (l c : nat) : loc := mkLoc l c None.

(* Bareword(srcloc, word): reading the characters of a word one by one (none of them is whitespace,
   so none is a newline); the first character starts Bareword(cursor, [c]), each further one gives
   Bareword(srcloc.ext(cursor), word ++ [c]) *)
Fixpoint bareword_loc (start : loc) (l c : nat) (rest : list N) : loc :=
  (* start = the state's srcloc so far, (l, c) = cursor at the next character *)
  match rest with
  | [] => start
  | _ :: r => bareword_loc (ext start (point l c)) l (S c) r
  end.

Definition bareword_emit (l c : nat) (w : list N) : loc :=
  match w with
  | [] => point l c
  | _ :: r => bareword_loc (point l c) l (S c) r
  end.

Lemma bareword_loc_spec : forall rest start l c0 c,
  line start = l -> col start = c0 -> (c0 < c)%nat -> loc_max start = (l, c) ->
  let r := bareword_loc start l c rest in
  loc_min r = (l, c0) /\ loc_max r = (l, c + length rest)%nat.
Proof.
  induction rest as [|x rest IH]; intros start l c0 c Hl Hc Hlt Hmax; cbn [bareword_loc length].
  - unfold loc_min. rewrite Hl, Hc, Hmax. split; [reflexivity|f_equal; lia].
  - assert (E : ext start (point l c) = mkLoc l c0 (Some (l, S c))).
    { unfold ext, point. cbn [line col]. rewrite Hl, Hc.
      rewrite Nat.ltb_irrefl, Nat.eqb_refl.
      replace (Nat.ltb c0 c) with true by (symmetry; apply Nat.ltb_lt; exact Hlt).
      unfold add_onto, loc_max. cbn. rewrite Hl, Hc. reflexivity. }
    rewrite E. specialize (IH (mkLoc l c0 (Some (l, S c))) l c0 (S c) eq_refl eq_refl ltac:(lia) eq_refl).
    cbv zeta in IH. destruct IH as [I1 I2]. split; [exact I1|]. rewrite I2. f_equal. lia.
Qed.

(* a bareword's location addresses exactly its characters: it starts at the column of the first
   character and ends just past the last one, on the same line *)
Theorem bareword_span : forall l c w, w <> [] ->
  loc_min (bareword_emit l c w) = (l, c) /\ loc_max (bareword_emit l c w) = (l, c + length w)%nat.
Proof.
  intros l c w Hw. destruct w as [|x r]; [contradiction|]. cbn [bareword_emit length].
  destruct (bareword_loc_spec r (point l c) l c (S c) eq_refl eq_refl ltac:(lia) eq_refl) as [H1 H2].
  split; [exact H1|]. rewrite H2. f_equal. lia.
Qed.

(* quoted string: QuotedString(srcloc.ext(&loc)) with srcloc the opening quote and loc the closing one *)
Theorem quoted_span_same_line : forall l c n,
  (0 < n)%nat ->
  let r := ext (point l c) (point l (c + n)) in
  loc_min r = (l, c) /\ loc_max r = (l, S (c + n)).
Proof.
  intros l c n Hn. unfold ext, point. cbn [line col]. rewrite Nat.ltb_irrefl, Nat.eqb_refl.
  replace (Nat.ltb c (c + n)) with true by (symmetry; apply Nat.ltb_lt; lia).
  unfold add_onto, loc_min, loc_max. cbn. split; reflexivity.
Qed.

Theorem quoted_span_multi_line : forall l c l' c',
  (l < l')%nat ->
  let r := ext (point l c) (point l' c') in
  loc_min r = (l, c) /\ loc_max r = (l', S c').
Proof.
  intros l c l' c' Hl. unfold ext, point. cbn [line col].
  replace (Nat.ltb l l') with true by (symmetry; apply Nat.ltb_lt; exact Hl).
  unfold add_onto, loc_min, loc_max. cbn. split; reflexivity.
Qed.
