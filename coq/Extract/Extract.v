(* Extraction of the executable models for the correspondence check.
   Only ExtrOcamlBasic's directives are used (bool, option, unit, list, prod, sumbool, sumor
   to OCaml natives); nat, N, Z, positive stay extracted inductives. *)
Require Import Extraction ExtrOcamlBasic.
From CV Require Import Base.Prelude Base.Val Base.Bytes Gen.OpTables Gen.Consts Tables.OpTablesModel Ser.Serialize Rich.Rich Clvm.Path Clvm.Eval Clvm.Ops Opt.ClassicOpt Step.Stepper Step.Cldb Lang.Scope Lang.PEval.

Set Extraction Output Directory ".".
Extraction "model.ml"
  (* base *) bytes_eqb val_eqb to_list of_list
  (* casts *) int_from_bytes bigint_from_bytes_unsigned bigint_from_bytes_signed be_unsigned be_signed
              bigint_to_bytes_unsigned bigint_to_bytes_clvm
  (* C08 *) encode decode spec_encode spec_decode
  (* C07 *) to_clvm from_clvm treehash sha256tree_classic sha256tree_rich equal_to hash_stream rnilp printable
  (* eval *) eval opf_exec traverse
  (* C04 *) optimize sub_args path_optimizer compose_paths seems_constant
  (* C06 *) run start eval_nph
  (* C12 *) trace cldb_start
  (* C10 *) toposort assign_stages mkItem
  (* C16 C17 *) seval shrink reported_unused mentions plain
  (* C20 *) kw_pairs modern_prims from_atom_rows to_atom_rows keyword_from_atom keyword_to_atom
            prim_lookup implemented opcode_canonical be_val operators_latest_version.
