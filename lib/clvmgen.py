"""Generators for raw CLVM programs and environments (DESIGN.md section 6)."""
import itertools
from vlib import atom, cons, lst, int_atom

Q, A, I, C, F, R, L, X, EQ, ADD, SUB = "x01", "x02", "x03", "x04", "x05", "x06", "x07", "x08", "x09", "x10", "x11"
NIL = "x"


def q(v):
    return cons(Q, v)


def small_alphabet():
    return [Q, A, I, C, F, R, L, X, EQ, ADD, SUB, NIL, "x03", "x07"]   # opcodes double as paths 1..7


def all_trees(leaves, nleaves):
    """all binary trees with exactly nleaves leaves drawn from `leaves`"""
    if nleaves == 1:
        for l in leaves:
            yield l
        return
    for k in range(1, nleaves):
        for a in all_trees(leaves, k):
            for b in all_trees(leaves, nleaves - k):
                yield cons(a, b)


def env_tree(depth, prefix=1):
    """full binary tree whose leaf at path p is the atom encoding p (distinct everywhere)"""
    if depth == 0:
        return int_atom(prefix + 1000)
    # path of left child: prefix with a 0 bit appended below the sentinel
    nbits = prefix.bit_length() - 1
    low = prefix & ((1 << nbits) - 1)
    left = (1 << (nbits + 1)) | low
    right = (1 << (nbits + 1)) | (1 << nbits) | low
    return cons(env_tree(depth - 1, left), env_tree(depth - 1, right))


def env_for_path(path, leaf="x4c454146", filler=0):
    """an environment in which `path` (int >= 1) resolves to `leaf`; siblings are distinct small atoms"""
    bits = []
    p = path
    while p > 1:
        bits.append(p & 1)
        p >>= 1
    # bits[0] is the first step from the root
    node = leaf
    k = len(bits)
    for i in range(k - 1, -1, -1):
        sib = int_atom(2000 + i + filler)
        node = cons(sib, node) if bits[i] else cons(node, sib)
    return node


def path_bytes_variants(rng, full=True):
    """path atoms of 1..9 bytes: every combination of boundary values in the two leading bytes
    (sign bit, sign extension, zero padding, leading 0x01) x zero / all-ones / random tails"""
    out = [b"", b"\x01", b"\x02", b"\x03"]
    lead = [0x00, 0x01, 0x7f, 0x80, 0xff, None]
    for n in range(1, 10):
        for a in lead:
            a_ = rng.randint(2, 0x7e) if a is None else a
            if n == 1:
                out.append(bytes([a_]))
                continue
            for b in lead:
                b_ = rng.randint(2, 0x7e) if b is None else b
                tails = [b"\x00" * (n - 2), b"\xff" * (n - 2), bytes(rng.getrandbits(8) for _ in range(n - 2))]
                if not full:
                    tails = [rng.choice(tails)]
                for t in tails:
                    out.append(bytes([a_, b_]) + t)
    seen = []
    s = set()
    for x in out:
        if x not in s:
            s.add(x)
            seen.append(x)
    return seen


class ExprGen:
    """typed random expressions over an environment of known shape: most programs return"""

    def __init__(self, rng, ops=None):
        self.rng = rng

    def env(self, depth=3):
        return env_tree(depth)

    def path(self, depth):
        """a path into env_tree(depth): (atom, is_leaf)"""
        d = self.rng.randint(0, depth)
        p = 1
        for _ in range(d):
            p = (p << 1) | self.rng.getrandbits(1)
        # p has sentinel on top; the steps are read lsb first, any bit pattern of d steps is valid
        return int_atom(p) if p < 0x80 else atom(p.to_bytes((p.bit_length() + 7) // 8, "big")), d == depth

    def atom_expr(self, depth):
        r = self.rng.random()
        if r < 0.45:
            # a leaf of the environment (an atom value)
            p = 1
            for _ in range(depth):
                p = (p << 1) | self.rng.getrandbits(1)
            return atom(p.to_bytes((p.bit_length() + 7) // 8, "big"))
        if r < 0.75:
            return q(int_atom(self.rng.choice([0, 1, 2, 5, 127, 128, -1, -129, 1000, 65535])))
        if r < 0.85:
            return NIL
        op = self.rng.choice([ADD, SUB, EQ, "x15", "x12", "x20", "x0d"])
        if op in (EQ, "x15"):
            return lst([op, self.atom_expr(depth), self.atom_expr(depth)])
        if op in ("x20", "x0d"):
            return lst([op, self.atom_expr(depth)])
        return lst([op] + [self.atom_expr(depth) for _ in range(self.rng.randint(0, 3))])

    def expr(self, depth, size):
        """any value"""
        r = self.rng.random()
        if size <= 0 or r < 0.25:
            return self.atom_expr(depth)
        if r < 0.40:
            return lst([C, self.expr(depth, size - 1), self.expr(depth, size - 1)])
        if r < 0.50:
            return lst([F, lst([C, self.expr(depth, size - 1), self.expr(depth, size - 1)])])
        if r < 0.58:
            return lst([R, lst([C, self.expr(depth, size - 1), self.expr(depth, size - 1)])])
        if r < 0.68:
            return lst([I, self.atom_expr(depth), self.expr(depth, size - 1), self.expr(depth, size - 1)])
        if r < 0.74:
            return q(self.rng.choice([NIL, "x01", cons("x02", "x03"), lst(["x05", "x06"])]))
        if r < 0.80 and depth >= 1:
            # f / r of an inner node of the environment
            p, leaf = self.path(depth - 1)
            return lst([self.rng.choice([F, R]), p])
        if r < 0.86:
            p, _ = self.path(depth)
            return p
        if r < 0.93:
            # (a (q . body) new_env) where new_env is built to be an env_tree-like value
            body = self.expr(1, size - 1)
            newenv = lst([C, self.expr(depth, size - 2), self.expr(depth, size - 2)])
            return lst([A, q(body), newenv])
        if r < 0.97:
            return lst([A, q(self.expr(depth, size - 1)), "x01"])
        return lst([L, self.expr(depth, size - 1)])
