"""Typed generator of Chialisp source programs together with a reference (call-by-value) interpreter.

A program is a Python structure (the AST); `render(prog, dialect)` prints the source text for a dialect and
`evaluate(prog, args)` computes the value the source means (DESIGN.md section 6/7: the oracle of C01/C02/
C03/C13/C16/C17). Values are Python ints, bytes (string / hex atoms) and 2-tuples (pairs); () is nil = 0.
Types: 'I' integer-valued, 'L' list-valued (proper list of integers / lists).
Every name is upper-case plus digits so that no operator or keyword is shadowed."""
import random

SIGILS = {
    "classic": "",
    "cl21": "(include *standard-cl-21*)",
    "strict21": "(include *strict-cl-21*)",
    "cl22": "(include *standard-cl-22*)",
    "cl23": "(include *standard-cl-23*)",
    "cl23.1": "(include *standard-cl-23.1*)",
    "cl24": "(include *standard-cl-24*)",
}
MODERN = [d for d in SIGILS if d != "classic"]

# features a dialect cannot express (probed on the pinned tree; see DESIGN.md)
LACKS = {
    "classic": {"let", "let*", "assign", "assign-inline", "assign-lambda", "lambda", "defmac", "rest"},
    "cl22": {"lambda", "assign-lambda"},
    "strict21": {"lambda"},
}


class Fail(Exception):
    pass


# ------------------------------------------------------------------ values

def to_clvm(v):
    """transport notation of a reference value"""
    from vlib import int_atom, atom, cons
    if isinstance(v, tuple):
        if v == ():
            return "x"
        return cons(to_clvm(v[0]), to_clvm(v[1]))
    if isinstance(v, bytes):
        return atom(v)
    return int_atom(v)


def pylist(items, tail=()):
    r = tail
    for x in reversed(items):
        r = (x, r)
    return r


def truthy(v):
    return not (v == () or v == 0 or v == b"")


def as_int(v):
    if isinstance(v, tuple) and v != ():
        raise Fail("int of pair")
    if v == ():
        return 0
    if isinstance(v, bytes):
        return int.from_bytes(v, "big", signed=True) if v else 0
    return v


# ------------------------------------------------------------------ generator

class Gen:
    def __init__(self, rng, features=None, nparams=None, max_funs=4, depth=3):
        self.rng = rng
        self.features = features if features is not None else {"defun", "inline", "const", "macro", "let", "let*", "assign", "lambda", "rest", "at", "nested", "strings", "qconst"}
        self.counter = 0
        self.funs = []       # dict(name, kind, params(pattern), ptypes(flat list of (name,type)), body, rtype)
        self.consts = []     # (name, kind, expr/value)
        self.macros = []     # (name, params, op)
        self.nparams = nparams
        self.max_funs = max_funs
        self.depth = depth

    def fresh(self, p):
        self.counter += 1
        return "%s%d" % (p, self.counter)

    # parameter patterns: ('n', name, type) | ('p', [patterns], tailpattern or None) | ('@', name, pattern)
    def pattern(self, n, allow_nested=True):
        items = []
        names = []
        for _ in range(n):
            r = self.rng.random()
            if allow_nested and "nested" in self.features and r < 0.06:
                # two levels: ((A B) C D) / (P (Q R)) / ((A . B) C)
                a, b, c, d = self.fresh("N"), self.fresh("N"), self.fresh("N"), self.fresh("N")
                shape = self.rng.choice(["headlist", "taillist", "both"])
                if shape == "headlist":
                    items.append(("p", [("p", [("n", a, "I"), ("n", b, "I")], None), ("n", c, "I"), ("n", d, "I")], None))
                elif shape == "taillist":
                    items.append(("p", [("n", a, "I"), ("p", [("n", b, "I"), ("n", c, "I")], None), ("n", d, "I")], None))
                else:
                    items.append(("p", [("p", [("n", a, "I"), ("n", b, "I")], None), ("p", [("n", c, "I"), ("n", d, "I")], None)], None))
                names += [(a, "I"), (b, "I"), (c, "I"), (d, "I")]
            elif allow_nested and "nested" in self.features and r < 0.12:
                a, b = self.fresh("N"), self.fresh("N")
                items.append(("p", [("n", a, "I"), ("n", b, "I")], None))
                names += [(a, "I"), (b, "I")]
            elif allow_nested and "at" in self.features and r < 0.2:
                w, a, b = self.fresh("W"), self.fresh("N"), self.fresh("N")
                items.append(("@", w, ("p", [("n", a, "I"), ("n", b, "I")], None)))
                names += [(w, "L"), (a, "I"), (b, "I")]
            else:
                a = self.fresh("P")
                items.append(("n", a, "I"))
                names.append((a, "I"))
        tail = None
        if allow_nested and "nested" in self.features and self.rng.random() < 0.15:
            t = self.fresh("T")
            tail = ("n", t, "L")
            names.append((t, "L"))
        return ("p", items, tail), names

    def literal(self):
        r = self.rng.random()
        if r < 0.6:
            return ("int", self.rng.choice([0, 1, 2, 3, 5, 7, 10, 100, 127, 128, 255, 256, -1, -2, -128, -129, 65535, 2 ** 31, 2 ** 64 + 3, -(2 ** 40)]))
        if r < 0.8 and "strings" in self.features:
            return ("hex", self.rng.choice([b"\x00\x01", b"\x7f", b"\x00\x80", b"\xff\xff", b"\x01\x00\x00", b"\x00"]))
        if "strings" in self.features:
            return ("str", self.rng.choice([b"hello", b"A", b"ab cd", b"x1y2"]))
        return ("int", 4)

    def expr_i(self, env, depth):
        """integer-valued expression"""
        r = self.rng.random()
        ivars = [n for n, t in env if t == "I"]
        if depth <= 0 or r < 0.22:
            if ivars and self.rng.random() < 0.75:
                return ("var", self.rng.choice(ivars))
            if self.consts and self.rng.random() < 0.3:
                return ("const", self.rng.choice(self.consts)[0])
            return ("int", self.rng.choice([0, 1, 2, 3, 5, 7, 100, 127, 128, 255, -1, -129, 65536]))
        if r < 0.45:
            op = self.rng.choice(["+", "-", "*", "+", "-"])
            n = 2 if op != "+" else self.rng.randint(2, 3)
            args = [self.expr_i(env, depth - 1) for _ in range(n)]
            if op == "*":
                args[1] = ("int", self.rng.choice([2, 3, -1]))
            return ("op", op, args)
        if r < 0.58:
            return ("if", self.cond(env, depth - 1), self.expr_i(env, depth - 1), self.expr_i(env, depth - 1))
        if r < 0.75 and self.funs:
            f = self.rng.choice(self.funs)
            if f["rtype"] == "I":
                return self.call(f, env, depth - 1)
        if r < 0.82 and self.macros:
            m = self.rng.choice(self.macros)
            return ("mcall", m[0], [self.expr_i(env, depth - 1) for _ in m[1]])
        if r < 0.92:
            kinds = [k for k in ("let", "let*", "assign", "assign-inline", "assign-lambda") if k.split("-")[0] in self.features or k in self.features]
            if kinds:
                return self.letform(self.rng.choice(kinds), env, depth - 1)
        if r < 0.97 and "lambda" in self.features:
            return self.lam(env, depth - 1)
        lvars = [n for n, t in env if t == "L"]
        if lvars:
            return ("op", "strlen", [("q", b"abc")]) if self.rng.random() < 0.3 else ("op", "f", [("list", [self.expr_i(env, depth - 1), ("var", self.rng.choice(lvars))])])
        return ("op", "+", [self.expr_i(env, depth - 1), ("int", 1)])

    def cond(self, env, depth):
        r = self.rng.random()
        if r < 0.4:
            return ("op", "=", [self.expr_i(env, depth), self.expr_i(env, depth)])
        if r < 0.8:
            return ("op", ">", [self.expr_i(env, depth), self.expr_i(env, depth)])
        if r < 0.9:
            return ("op", "not", [self.cond(env, depth - 1)]) if depth > 0 else ("int", 1)
        return self.expr_i(env, depth)

    def quoted_const(self):
        """a quoted data constant: nested lists whose heads look like operators / paths"""
        rng = self.rng

        def item(d):
            r = rng.random()
            if d == 0 or r < 0.3:
                return rng.choice([0, 1, 2, 3, 4, 5, 6, 7, 8, 9, 16, 100, 500, 600, -1, 255, 65535])
            if r < 0.6:
                # looks like a one-operand call: (op n) / (op (op n)) / (q . n)
                k = rng.choice([1, 2, 3, 4, 5, 6, 7, 8, 9, 16])
                inner = item(d - 1)
                return (k, (inner, ())) if rng.random() < 0.8 else (k, inner)
            return pylist([item(d - 1) for _ in range(rng.randint(1, 3))], () if rng.random() < 0.85 else item(0))
        return pylist([item(2) for _ in range(rng.randint(1, 4))])

    def expr_l(self, env, depth):
        r = self.rng.random()
        lvars = [n for n, t in env if t == "L"]
        if "qconst" in self.features and r < 0.12:
            return ("q", self.quoted_const())
        if lvars and r < 0.25:
            return ("var", self.rng.choice(lvars))
        if r < 0.7 or depth <= 0:
            return ("list", [self.expr_i(env, depth - 1) for _ in range(self.rng.randint(0, 3))])
        if r < 0.85:
            return ("cons", self.expr_i(env, depth - 1), self.expr_l(env, depth - 1))
        return ("if", self.cond(env, depth - 1), self.expr_l(env, depth - 1), self.expr_l(env, depth - 1))

    def arg_for(self, pat, env, depth):
        """an argument expression matching one parameter pattern"""
        if pat[0] == "n":
            return self.expr_i(env, depth) if pat[2] == "I" else self.expr_l(env, depth)
        if pat[0] == "@":
            return self.arg_for(pat[2], env, depth)
        # ('p', items, tail) as one argument: a list expression
        items = [self.arg_for(p, env, depth) for p in pat[1]]
        if pat[2] is None:
            return ("list", items)
        t = self.arg_for(pat[2], env, depth)
        r = t
        for it in reversed(items):
            r = ("cons", it, r)
        return r

    def call(self, f, env, depth):
        pat = f["params"]
        args = [self.arg_for(p, env, depth) for p in pat[1]]
        rest = None
        if pat[2] is not None:
            # the dotted tail parameter takes the remaining arguments: supply 0..2 more
            extra = [self.expr_i(env, depth) for _ in range(self.rng.randint(0, 2))]
            args += extra
        elif "rest" in self.features and len(args) >= 2 and self.rng.random() < 0.25:
            k = self.rng.randint(1, len(args) - 1)
            kinds = [x for x in ("let", "let*") if x in self.features]
            if kinds and self.rng.random() < 0.4 and all(p[0] == "n" and p[2] == "I" for p in pat[1][k:]):
                # the tail is a binding form that yields the remaining arguments
                rest = self.letform(self.rng.choice(kinds), env, depth, body_type=len(args) - k)
            else:
                rest = ("list", args[k:])
            args = args[:k]
        return ("call", f["name"], args, rest)

    def letform(self, kind, env, depth, body_type="I"):
        n = self.rng.randint(1, 3)
        binds = []
        env2 = list(env)
        ivars = [x for x, t in env if t == "I"]
        for _ in range(n):
            # sometimes rebind (shadow) a name that is already in scope
            if ivars and self.rng.random() < 0.3 and not kind.startswith("assign"):
                name = self.rng.choice(ivars)
                if name in [b[0] for b in binds]:
                    name = self.fresh("V")
            else:
                name = self.fresh("V")
            scope = env2 if kind != "let" else env
            binds.append((name, self.expr_i(scope, depth)))
            env2 = [(x, t) for x, t in env2 if x != name] + [(name, "I")]
        mk = (lambda: self.expr_i(env2, depth)) if body_type == "I" else (lambda: ("list", [self.expr_i(env2, depth) for _ in range(body_type)]))
        if kind.startswith("assign") and n > 1 and self.rng.random() < 0.5:
            # assign sorts its bindings by dependency: present them in reverse order
            binds = list(reversed(binds))
            return ("let", kind, binds, mk(), True)
        return ("let", kind, binds, mk(), False)

    def lam(self, env, depth):
        ivars = [n for n, t in env if t == "I"]
        caps = self.rng.sample(ivars, min(len(ivars), self.rng.randint(0, 2)))
        params = [self.fresh("Q") for _ in range(self.rng.randint(1, 2))]
        inner = [(c, "I") for c in caps] + [(p, "I") for p in params]
        saved = (self.funs, self.macros)
        self.funs, self.macros = [], []      # lambda bodies: keep them first order and closed over captures only
        body = self.expr_i(inner, min(depth, 1))
        self.funs, self.macros = saved
        args = [self.expr_i(env, depth) for _ in params]
        return ("lambda", caps, params, body, args)

    def program(self):
        rng = self.rng
        np_ = self.nparams if self.nparams is not None else rng.choice([1, 2, 3, 4, 6, 10, 16, 17, 31, 32, 40])
        mainpat, mainnames = self.pattern(np_, allow_nested=np_ <= 10)
        if "const" in self.features:
            for _ in range(rng.randint(0, 2)):
                name = self.fresh("K")
                if rng.random() < 0.5:
                    self.consts.append((name, "defconstant", ("int", rng.choice([3, 11, 255, -7, 1000]))))
                else:
                    self.consts.append((name, "defconst", ("op", "+", [("int", rng.choice([1, 2, 300])), ("int", rng.choice([5, -9]))])))
        if "macro" in self.features and rng.random() < 0.4:
            name = self.fresh("M")
            a, b = self.fresh("MA"), self.fresh("MB")
            self.macros.append((name, [a, b], rng.choice(["+", "-", "*"])))
        nf = rng.randint(0, self.max_funs)
        for _ in range(nf):
            kinds = [k for k in ("defun", "inline") if k in self.features] or ["defun"]
            kind = rng.choice(kinds)
            name = self.fresh("F")
            pat, names = self.pattern(rng.randint(1, 4))
            callable_funs = [f for f in self.funs]     # only earlier functions: no recursion, no inline cycles
            saved = self.funs
            self.funs = callable_funs
            body = self.expr_i(names, self.depth - 1)
            self.funs = saved
            self.funs.append({"name": name, "kind": kind, "params": pat, "names": names, "body": body, "rtype": "I"})
        rb = rng.random()
        if rb < 0.6:
            body = self.expr_i(mainnames, self.depth)
        elif rb < 0.8:
            body = ("list", [self.expr_i(mainnames, self.depth - 1) for _ in range(rng.randint(1, 3))])
        else:
            body = ("cons", self.expr_i(mainnames, self.depth - 1), self.expr_l(mainnames, self.depth))
        return {"params": mainpat, "names": mainnames, "funs": self.funs, "consts": self.consts, "macros": self.macros, "body": body}


# ------------------------------------------------------------------ rendering

def r_pat(p):
    if p[0] == "n":
        return p[1]
    if p[0] == "@":
        return "(@ %s %s)" % (p[1], r_pat(p[2]))
    items = " ".join(r_pat(x) for x in p[1])
    if p[2] is None:
        return "(%s)" % items
    return "(%s . %s)" % (items, r_pat(p[2])) if items else r_pat(p[2])


def r_lit(v):
    if isinstance(v, tuple):
        if v == ():
            return "()"
        items = []
        while isinstance(v, tuple) and v != ():
            items.append(r_lit(v[0]))
            v = v[1]
        if v == ():
            return "(%s)" % " ".join(items)
        return "(%s . %s)" % (" ".join(items), r_lit(v))
    if isinstance(v, bytes):
        return '"%s"' % v.decode()
    return str(v)


def r_expr(e):
    k = e[0]
    if k == "var" or k == "const":
        return e[1]
    if k == "int":
        return str(e[1])
    if k == "str":
        return '"%s"' % e[1].decode()
    if k == "hex":
        return "0x" + e[1].hex()
    if k == "q":
        return "(q . %s)" % r_lit(e[1])
    if k == "op":
        return "(%s %s)" % (e[1], " ".join(r_expr(a) for a in e[2]))
    if k == "if":
        return "(if %s %s %s)" % (r_expr(e[1]), r_expr(e[2]), r_expr(e[3]))
    if k == "list":
        return "(list %s)" % " ".join(r_expr(a) for a in e[1]) if e[1] else "()"
    if k == "cons":
        return "(c %s %s)" % (r_expr(e[1]), r_expr(e[2]))
    if k == "call":
        s = " ".join(r_expr(a) for a in e[2])
        if e[3] is not None:
            s += " &rest " + r_expr(e[3])
        return "(%s %s)" % (e[1], s)
    if k == "mcall":
        return "(%s %s)" % (e[1], " ".join(r_expr(a) for a in e[2]))
    if k == "let":
        kind, binds, body = e[1], e[2], e[3]
        if kind.startswith("assign"):
            return "(%s %s %s)" % (kind, " ".join("%s %s" % (n, r_expr(x)) for n, x in binds), r_expr(body))
        return "(%s (%s) %s)" % (kind, " ".join("(%s %s)" % (n, r_expr(x)) for n, x in binds), r_expr(body))
    if k == "modwrap":
        # an embedded (mod ...) form written literally in the expression; its value is dropped
        return "(r (c (mod (Z) (+ Z 1)) %s))" % r_expr(e[1])
    if k == "lambda":
        caps, params, body, args = e[1], e[2], e[3], e[4]
        head = "(%s %s)" % ("(& %s)" % " ".join(caps) if caps else "(&)", " ".join(params)) if True else ""
        if not caps:
            head = "(%s)" % " ".join(params)
        return "(a (lambda %s %s) (list %s))" % (head, r_expr(body), " ".join(r_expr(a) for a in args))
    raise ValueError(k)


def features_used(prog):
    used = set()

    def walk(e):
        k = e[0]
        if k == "let":
            used.add(e[1])
            for _, x in e[2]:
                walk(x)
            walk(e[3])
        elif k == "lambda":
            used.add("lambda")
            walk(e[3])
            for a in e[4]:
                walk(a)
        elif k in ("op", "mcall"):
            for a in e[2]:
                walk(a)
        elif k == "if":
            walk(e[1]); walk(e[2]); walk(e[3])
        elif k == "list":
            for a in e[1]:
                walk(a)
        elif k == "cons":
            walk(e[1]); walk(e[2])
        elif k == "call":
            for a in e[2]:
                walk(a)
            if e[3] is not None:
                used.add("rest")
                walk(e[3])
    walk(prog["body"])
    for f in prog["funs"]:
        walk(f["body"])
    return used


def renderable(prog, dialect):
    return not (features_used(prog) & LACKS.get(dialect, set()))


def render(prog, dialect, extra_forms=""):
    parts = []
    if SIGILS[dialect]:
        parts.append(SIGILS[dialect])
    for name, kind, e in prog["consts"]:
        parts.append("(%s %s %s)" % (kind, name, r_expr(e)))
    for name, params, op in prog["macros"]:
        parts.append("(defmacro %s (%s) (qq (%s (unquote %s) (unquote %s))))" % (name, " ".join(params), op, params[0], params[1]))
    for f in prog["funs"]:
        parts.append("(%s %s %s %s)" % ("defun" if f["kind"] == "defun" else "defun-inline", f["name"], r_pat(f["params"]), r_expr(f["body"])))
    if extra_forms:
        parts.append(extra_forms)
    parts.append(r_expr(prog["body"]))
    return "(mod %s\n  %s\n)" % (r_pat(prog["params"]), "\n  ".join(parts))


# ------------------------------------------------------------------ reference semantics

def bind(pat, val, env):
    if pat[0] == "n":
        env[pat[1]] = val
        return
    if pat[0] == "@":
        env[pat[1]] = val
        bind(pat[2], val, env)
        return
    for p in pat[1]:
        if not (isinstance(val, tuple) and val != ()):
            raise Fail("destructure")
        bind(p, val[0], env)
        val = val[1]
    if pat[2] is not None:
        bind(pat[2], val, env)


def evaluate(prog, argval):
    funs = {f["name"]: f for f in prog["funs"]}
    macros = {m[0]: m for m in prog["macros"]}
    consts = {}
    for name, kind, e in prog["consts"]:
        consts[name] = ev(e, {}, funs, macros, consts)
    env = {}
    bind(prog["params"], argval, env)
    return ev(prog["body"], env, funs, macros, consts)


def arith(op, vals):
    xs = [as_int(v) for v in vals]
    if op == "+":
        return sum(xs)
    if op == "-":
        return xs[0] - sum(xs[1:]) if xs else 0
    if op == "*":
        r = 1
        for x in xs:
            r *= x
        return r
    raise ValueError(op)


def ev(e, env, funs, macros, consts):
    k = e[0]
    if k == "var":
        return env[e[1]]
    if k == "const":
        return consts[e[1]]
    if k == "int":
        return e[1]
    if k == "str" or k == "hex":
        return e[1]
    if k == "q":
        return e[1]
    if k == "if":
        c = ev(e[1], env, funs, macros, consts)
        return ev(e[2], env, funs, macros, consts) if truthy(c) else ev(e[3], env, funs, macros, consts)
    if k == "list":
        return pylist([ev(a, env, funs, macros, consts) for a in e[1]])
    if k == "cons":
        return (ev(e[1], env, funs, macros, consts), ev(e[2], env, funs, macros, consts))
    if k == "op":
        op = e[1]
        vals = [ev(a, env, funs, macros, consts) for a in e[2]]
        if op in ("+", "-", "*"):
            return arith(op, vals)
        if op == "=":
            a, b = vals
            if isinstance(a, tuple) and a != () or isinstance(b, tuple) and b != ():
                raise Fail("= on pair")
            return 1 if atom_bytes(a) == atom_bytes(b) else ()
        if op == ">":
            return 1 if as_int(vals[0]) > as_int(vals[1]) else ()
        if op == "not":
            return () if truthy(vals[0]) else 1
        if op == "f":
            if not (isinstance(vals[0], tuple) and vals[0] != ()):
                raise Fail("f of atom")
            return vals[0][0]
        if op == "r":
            if not (isinstance(vals[0], tuple) and vals[0] != ()):
                raise Fail("r of atom")
            return vals[0][1]
        if op == "strlen":
            return len(atom_bytes(vals[0]))
        raise ValueError(op)
    if k == "mcall":
        m = macros[e[1]]
        return arith(m[2], [ev(a, env, funs, macros, consts) for a in e[2]])
    if k == "call":
        f = funs[e[1]]
        vals = [ev(a, env, funs, macros, consts) for a in e[2]]
        tail = ev(e[3], env, funs, macros, consts) if e[3] is not None else ()
        argval = pylist(vals, tail)
        env2 = {}
        bind(f["params"], argval, env2)
        return ev(f["body"], env2, funs, macros, consts)
    if k == "let":
        kind, binds, body = e[1], e[2], e[3]
        reordered = e[4] if len(e) > 4 else False
        if kind == "let":
            vals = [(n, ev(x, env, funs, macros, consts)) for n, x in binds]
            env2 = dict(env)
            env2.update(vals)
        else:
            env2 = dict(env)
            seq = list(reversed(binds)) if reordered else binds
            for n, x in seq:
                env2[n] = ev(x, env2, funs, macros, consts)
        return ev(body, env2, funs, macros, consts)
    if k == "modwrap":
        return ev(e[1], env, funs, macros, consts)
    if k == "lambda":
        caps, params, body, args = e[1], e[2], e[3], e[4]
        env2 = {c: env[c] for c in caps}
        for p, a in zip(params, args):
            env2[p] = ev(a, env, funs, macros, consts)
        return ev(body, env2, funs, macros, consts)
    raise ValueError(k)


def atom_bytes(v):
    if isinstance(v, bytes):
        return v
    if v == () or v == 0:
        return b""
    l = (v.bit_length() + 8) // 8
    b = v.to_bytes(l, "big", signed=True)
    while len(b) > 1 and ((b[0] == 0 and b[1] < 0x80) or (b[0] == 0xff and b[1] >= 0x80)):
        b = b[1:]
    return b


def gen_args(prog, rng):
    """an argument tree fitting the parameter pattern"""
    def val(p):
        if p[0] == "n":
            if p[2] == "I":
                return rng.choice([0, 1, 2, 3, 7, 100, 127, 128, 255, -1, -5, 1000, 65535, 2 ** 40])
            return pylist([rng.choice([1, 2, 3, 50]) for _ in range(rng.randint(0, 3))])
        if p[0] == "@":
            return val(p[2])
        items = [val(x) for x in p[1]]
        return pylist(items, val(p[2]) if p[2] is not None else ())
    return val(prog["params"])


# ------------------------------------------------------------------ shrinking

def subexprs(e, path=()):
    """yield (path, subexpr) for every expression position"""
    yield path, e
    k = e[0]
    if k in ("op", "mcall"):
        for i, a in enumerate(e[2]):
            yield from subexprs(a, path + (2, i))
    elif k == "if":
        for i in (1, 2, 3):
            yield from subexprs(e[i], path + (i,))
    elif k == "list":
        for i, a in enumerate(e[1]):
            yield from subexprs(a, path + (1, i))
    elif k == "cons":
        yield from subexprs(e[1], path + (1,))
        yield from subexprs(e[2], path + (2,))
    elif k == "call":
        for i, a in enumerate(e[2]):
            yield from subexprs(a, path + (2, i))
        if e[3] is not None:
            yield from subexprs(e[3], path + (3,))
    elif k == "let":
        for i, (n, x) in enumerate(e[2]):
            yield from subexprs(x, path + (2, i, 1))
        yield from subexprs(e[3], path + (3,))
    elif k == "lambda":
        yield from subexprs(e[3], path + (3,))
        for i, a in enumerate(e[4]):
            yield from subexprs(a, path + (4, i))
    elif k == "modwrap":
        yield from subexprs(e[1], path + (1,))


def replace_at(e, path, new):
    if not path:
        return new
    i = path[0]
    if isinstance(e, tuple):
        l = list(e)
        l[i] = replace_at(e[i], path[1:], new)
        return tuple(l)
    l = list(e)
    l[i] = replace_at(e[i], path[1:], new)
    return l


def shrink(prog, fails, budget=400):
    """greedy delta debugging over the AST; `fails(prog) -> bool` must be true for the input"""
    import copy
    cur = copy.deepcopy(prog)
    tries = 0
    changed = True
    while changed and tries < budget:
        changed = False
        # drop helpers that are not needed
        for key in ("funs", "consts", "macros"):
            for i in range(len(cur[key]) - 1, -1, -1):
                cand = copy.deepcopy(cur)
                del cand[key][i]
                tries += 1
                try:
                    ok = fails(cand)
                except Exception:
                    ok = False
                if ok:
                    cur = cand
                    changed = True
        # simplify expressions
        targets = [("body", None)] + [("funs", i) for i in range(len(cur["funs"]))]
        for where, idx in targets:
            root = cur["body"] if where == "body" else cur["funs"][idx]["body"]
            for path, sub in sorted(subexprs(root), key=lambda t: len(t[0])):
                if sub[0] in ("int", "var"):
                    continue
                repls = [("int", 1)]
                # immediate children of the same kind of value
                for p2, s2 in subexprs(sub):
                    if len(p2) in (1, 2, 3) and s2[0] in ("var", "int", "op", "if", "call", "let", "lambda", "mcall"):
                        repls.append(s2)
                for r in repls[:6]:
                    if tries >= budget:
                        break
                    cand = copy.deepcopy(cur)
                    try:
                        newroot = replace_at(root, path, r)
                    except Exception:
                        continue
                    if where == "body":
                        cand["body"] = newroot
                    else:
                        cand["funs"][idx]["body"] = newroot
                    tries += 1
                    try:
                        ok = fails(cand)
                    except Exception:
                        ok = False
                    if ok:
                        cur = cand
                        changed = True
                        break
                if changed:
                    break
            if changed:
                break
    return cur


# ------------------------------------------------------------------ known-finding class predicates (generator level)

def _walk_exprs(prog):
    yield ("main", None, prog["body"])
    for f in prog["funs"]:
        yield ("fun", f, f["body"])


def pat_has_at(p):
    if p[0] == "@":
        return True
    if p[0] == "p":
        return any(pat_has_at(x) for x in p[1]) or (p[2] is not None and pat_has_at(p[2]))
    return False


def expr_vars(e):
    return {s[1] for _, s in subexprs(e) if s[0] == "var"}


def has_closed_cond(prog):
    """some `if` whose condition contains no variable (it folds to a constant)"""
    for _, _, root in _walk_exprs(prog):
        for _, s in subexprs(root):
            if s[0] == "if" and not expr_vars(s[1]):
                return True
    return False


def inline_at_with_let(prog):
    """an inline function with an (@ name pattern) parameter whose body contains a let / assign form"""
    for f in prog["funs"]:
        if f["kind"] == "inline" and pat_has_at(f["params"]):
            if any(s[0] == "let" for _, s in subexprs(f["body"])):
                return True
    return False


def at_with_let(prog):
    """the main program or an inline function has an (@ name pattern) parameter and a let / assign form in its body"""
    if pat_has_at(prog["params"]) and any(s[0] == "let" for _, s in subexprs(prog["body"])):
        return True
    for f in prog["funs"]:
        if pat_has_at(f["params"]) and any(s[0] == "let" for _, s in subexprs(f["body"])):
            return True
    return False


def main_has_if(prog):
    return any(s[0] == "if" for _, s in subexprs(prog["body"]))


def _has_q_nil_pair(v):
    st = [v]
    while st:
        x = st.pop()
        if isinstance(x, tuple) and x != ():
            if x[0] == 1 and x[1] in ((), 0, b""):
                return True
            st.append(x[0])
            st.append(x[1])
    return False


def closed_body_with_quote_nil(prog):
    """a body (main or function) that contains a quoted constant with a (1 . nil) pair (seen first in closed bodies, then under seed 4 in a body with variables)"""
    for _, _, root in _walk_exprs(prog):
        for _, s in subexprs(root):
            if s[0] == "q" and _has_q_nil_pair(s[1]):
                return True
    return False


def inline_with_at(prog):
    return any(f["kind"] == "inline" and pat_has_at(f["params"]) for f in prog["funs"])


def zero_literal_condition(prog):
    """an if whose condition is (or, through an inline function's parameter, receives) a zero-valued non-empty literal atom"""
    def zero_lit(e):
        return e[0] == "hex" and len(e[1]) >= 1 and not any(e[1])
    inl = {f["name"] for f in prog["funs"] if f["kind"] == "inline"}
    for where in [prog["body"]] + [f["body"] for f in prog["funs"]]:
        for _, s in subexprs(where):
            if s[0] == "if" and zero_lit(s[1]):
                return True
            if s[0] == "call" and s[1] in inl and any(zero_lit(a) for a in s[2]):
                return True
    return False


def known_class(prog, dialect, opt):
    """id of the open known-finding class a (program, dialect, optimise) build falls into, or None"""
    if dialect == "strict21" and opt:
        return "D10-strict21-optimized"
    if dialect == "cl22" and (main_has_if(prog) or any(f["kind"] == "inline" for f in prog["funs"])):
        return "D18-cl22-identifier-leak"
    if dialect != "classic" and at_with_let(prog):
        return "D19-at-capture-with-let"
    if dialect in ("cl23", "strict21") and zero_literal_condition(prog):
        return "D32-cl23-zero-literal-condition"
    if dialect in ("cl23", "cl23.1", "cl24") and closed_body_with_quote_nil(prog):
        return "D20-quoted-constant-nulled"
    return None
