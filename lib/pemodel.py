"""Translation of generated source programs (lib/srcgen.py ASTs) into the evaluator model of coq/Lang/PEval.v.

Model expressions are written [C val] [V n] [L k] [O ophex e...] [I c t e] [F g e...] (values with '_' for ' ').
Destructuring parameter lists become first/rest paths over positional parameters; let / let* / assign forms and
lambdas become calls of fresh functions that take the enclosing function's parameters first (what the compiler's
own desugaring does). Programs using forms outside the model return None (Unsupported)."""
import srcgen
import vlib

OPS = {"+": "10", "-": "11", "*": "12", "=": "09", ">": "15", "not": "20", "f": "05", "r": "06", "c": "04", "strlen": "0d"}


class Unsupported(Exception):
    pass


def val_text(v):
    return srcgen.to_clvm(v).replace(" ", "_")


def const(v):
    return "[C %s]" % val_text(v)


def path(base, steps):
    e = base
    for s in steps:
        e = "[O %s %s]" % (OPS[s], e)
    return e


def bind_names(pat, base, out):
    """names of a pattern bound to paths over the expression text `base`"""
    if pat[0] == "n":
        out[pat[1]] = base
    elif pat[0] == "@":
        out[pat[1]] = base
        bind_names(pat[2], base, out)
    else:
        cur = base
        for p in pat[1]:
            bind_names(p, "[O 05 %s]" % cur, out)
            cur = "[O 06 %s]" % cur
        if pat[2] is not None:
            bind_names(pat[2], cur, out)


class Tr:
    def __init__(self, prog):
        self.prog = prog
        self.fidx = {f["name"]: i for i, f in enumerate(prog["funs"])}
        self.funs = [None] * len(prog["funs"])
        self.consts = {}
        for name, kind, e in prog["consts"]:
            self.consts[name] = const(srcgen.ev(e, {}, {}, {}, self.consts_vals()))
        self.macros = {m[0]: m for m in prog["macros"]}

    def consts_vals(self):
        return {}

    def positional(self, pat, mk):
        """name map for a top-level parameter list: item i -> mk(i); returns (names, arity)"""
        names = {}
        items = pat[1]
        for i, p in enumerate(items):
            bind_names(p, mk(i), names)
        n = len(items)
        if pat[2] is not None:
            bind_names(pat[2], mk(n), names)
            n += 1
        return names, n

    def call_args(self, f, args, rest, names, nloc):
        pat = f["params"]
        items = pat[1]
        a = [self.ex(x, names, nloc) for x in args]
        if rest is not None:
            if rest[0] != "list":
                raise Unsupported("&rest tail that is not a list literal")
            a += [self.ex(x, names, nloc) for x in rest[1]]
        if pat[2] is None:
            if len(a) < len(items):
                raise Unsupported("too few arguments")
            return a[:len(items)]
        head, extra = a[:len(items)], a[len(items):]
        if len(head) < len(items):
            raise Unsupported("too few arguments")
        t = const(())
        for x in reversed(extra):
            t = "[O 04 %s %s]" % (x, t)
        return head + [t]

    def fresh_fun(self, body_builder, nloc, nnew):
        """a new function whose first nloc parameters are the enclosing function's; returns its index"""
        self.funs.append(None)
        idx = len(self.funs) - 1
        self.funs[idx] = body_builder(idx)
        return idx

    def ex(self, e, names, nloc):
        k = e[0]
        if k == "var":
            if e[1] not in names:
                raise Unsupported("free name " + e[1])
            return names[e[1]]
        if k == "const":
            return self.consts[e[1]]
        if k == "int":
            return const(e[1])
        if k in ("str", "hex", "q"):
            return const(e[1])
        if k == "if":
            return "[I %s %s %s]" % (self.ex(e[1], names, nloc), self.ex(e[2], names, nloc), self.ex(e[3], names, nloc))
        if k == "list":
            t = const(())
            for x in reversed(e[1]):
                t = "[O 04 %s %s]" % (self.ex(x, names, nloc), t)
            return t
        if k == "cons":
            return "[O 04 %s %s]" % (self.ex(e[1], names, nloc), self.ex(e[2], names, nloc))
        if k == "op":
            if e[1] not in OPS:
                raise Unsupported("operator " + e[1])
            return "[O %s %s]" % (OPS[e[1]], " ".join(self.ex(x, names, nloc) for x in e[2]))
        if k == "mcall":
            m = self.macros[e[1]]
            return "[O %s %s]" % (OPS[m[2]], " ".join(self.ex(x, names, nloc) for x in e[2]))
        if k == "call":
            f = self.prog["funs"][self.fidx[e[1]]]
            return "[F %d %s]" % (self.fidx[e[1]], " ".join(self.call_args(f, e[2], e[3], names, nloc)))
        if k == "let":
            kind, binds, body = e[1], e[2], e[3]
            reordered = e[4] if len(e) > 4 else False
            if kind == "let":
                return self.let_parallel(binds, body, names, nloc)
            seq = list(reversed(binds)) if reordered else list(binds)
            return self.let_seq(seq, body, names, nloc)
        if k == "lambda":
            caps, params, body, args = e[1], e[2], e[3], e[4]
            newnames = {}
            for i, c in enumerate(caps + params):
                newnames[c] = "[L %d]" % i
            self.funs.append(None)
            idx = len(self.funs) - 1
            self.funs[idx] = self.ex(body, newnames, len(caps) + len(params))
            a = [self.ex(("var", c), names, nloc) for c in caps] + [self.ex(x, names, nloc) for x in args]
            return "[F %d %s]" % (idx, " ".join(a))
        raise Unsupported(k)

    def let_parallel(self, binds, body, names, nloc):
        newnames = dict(names)
        for j, (n, _) in enumerate(binds):
            newnames[n] = "[L %d]" % (nloc + j)
        self.funs.append(None)
        idx = len(self.funs) - 1
        self.funs[idx] = self.ex(body, newnames, nloc + len(binds))
        a = ["[L %d]" % i for i in range(nloc)] + [self.ex(x, names, nloc) for _, x in binds]
        return "[F %d %s]" % (idx, " ".join(a))

    def let_seq(self, seq, body, names, nloc):
        if not seq:
            return self.ex(body, names, nloc)
        (n, x), rest = seq[0], seq[1:]
        newnames = dict(names)
        newnames[n] = "[L %d]" % nloc
        self.funs.append(None)
        idx = len(self.funs) - 1
        self.funs[idx] = self.let_seq(rest, body, newnames, nloc + 1)
        a = ["[L %d]" % i for i in range(nloc)] + [self.ex(x, names, nloc)]
        return "[F %d %s]" % (idx, " ".join(a))


def translate(prog):
    """-> {'funs': text, 'body': text, 'nparams': n, 'param_names': [top-level positional names or None]} or None"""
    try:
        t = Tr(prog)
        for i, f in enumerate(prog["funs"]):
            names, n = t.positional(f["params"], lambda i: "[L %d]" % i)
            t.funs[i] = t.ex(f["body"], names, n)
        # in the main program names are program parameters: they must not be captured as function parameters by the
        # let desugaring, so the main expression is itself a function of its parameters called on [V i]
        mnames, n = t.positional(prog["params"], lambda i: "[L %d]" % i)
        t.funs.append(None)
        midx = len(t.funs) - 1
        t.funs[midx] = t.ex(prog["body"], mnames, n)
        body = "[F %d %s]" % (midx, " ".join("[V %d]" % i for i in range(n)))
        if any(x is None for x in t.funs):
            return None
        return {"funs": ";".join(t.funs), "body": body, "nparams": n, "main_index": midx}
    except Unsupported:
        return None
    except (KeyError, RecursionError):
        return None


def rho_of(prog, argval):
    """the positional argument values of the main program for an argument list value; None if it does not fit"""
    pat = prog["params"]
    out = []
    v = argval
    for _ in pat[1]:
        if not (isinstance(v, tuple) and v != ()):
            return None
        out.append(v[0])
        v = v[1]
    if pat[2] is not None:
        out.append(v)
    elif v != ():
        return None
    return out


def rho_text(vals):
    return ",".join(val_text(v) for v in vals)
