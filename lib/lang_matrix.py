"""Build matrix shared by the language-level checks (C01 C02 C03 C11 C13): generated source programs x
dialects x optimisation switch -> compile result, symbols, runs on argument sets, reference values."""
import hashlib
import json
import os
import pickle
import random
import vlib
import srcgen

DIALECTS = list(srcgen.SIGILS)


def harness_key():
    h = hashlib.sha256()
    with open(vlib.HARNESS_BIN, "rb") as f:
        h.update(f.read())
    for fn in ("srcgen.py", "lang_matrix.py"):
        h.update(open(os.path.join(vlib.VERIF, "lib", fn), "rb").read())
    return h.hexdigest()[:16]


def fixed_programs():
    """hand-written programs that exercise specific mechanisms (long parameter lists, tail positions, ...)"""
    out = []
    for n in (15, 16, 17, 31, 32, 33, 40):
        names = ["P%d" % i for i in range(1, n + 1)]
        pat = ("p", [("n", x, "I") for x in names], None)
        nm = [(x, "I") for x in names]
        for k in sorted({1, n // 2, n - 1, n}):
            out.append({"params": pat, "names": nm, "funs": [], "consts": [], "macros": [], "body": ("var", "P%d" % k), "tag": "param%d_of_%d" % (k, n)})
        out.append({"params": pat, "names": nm, "funs": [], "consts": [], "macros": [],
                    "body": ("op", "+", [("var", "P%d" % n), ("var", "P1"), ("var", "P%d" % (n // 2 + 1))]), "tag": "sum_of_%d" % n})
    # inline function taking 1..4 parameters from a &rest tail
    for npar in (2, 3, 4, 5):
        ps = ["A%d" % i for i in range(npar)]
        fpat = ("p", [("n", x, "I") for x in ps], None)
        for kind in ("inline", "defun"):
            for split in range(1, npar):
                for pick in range(npar):
                    f = {"name": "G", "kind": kind, "params": fpat, "names": [(x, "I") for x in ps], "body": ("var", ps[pick]), "rtype": "I"}
                    args = [("var", "X%d" % i) for i in range(npar)]
                    body = ("call", "G", args[:split], ("list", args[split:]))
                    mp = ("p", [("n", "X%d" % i, "I") for i in range(npar)], None)
                    out.append({"params": mp, "names": [("X%d" % i, "I") for i in range(npar)], "funs": [f], "consts": [], "macros": [], "body": body,
                                "tag": "rest_%s_%d_%d_%d" % (kind, npar, split, pick)})
    # binding forms in a &rest tail that rebind a name in scope
    for lk in ("let", "let*"):
        for fk in ("defun", "inline"):
            for gk in ("defun", "inline"):
                f = {"name": "F", "kind": fk, "params": ("p", [("n", "A", "I"), ("n", "B", "I")], None), "names": [], "body": ("op", "-", [("op", "*", [("var", "A"), ("int", 3)]), ("var", "B")]), "rtype": "I"}
                tail = ("let", lk, [("Y", ("op", "+", [("var", "Y"), ("int", 1)]))] + ([("Z", ("op", "+", [("var", "Y"), ("int", 5)]))] if lk == "let*" else []),
                        ("list", [("var", "Z" if lk == "let*" else "Y")]), False)
                g = {"name": "G", "kind": gk, "params": ("p", [("n", "X", "I"), ("n", "Y", "I")], None), "names": [], "body": ("call", "F", [("var", "X")], tail), "rtype": "I"}
                mp = ("p", [("n", "P1", "I"), ("n", "P2", "I")], None)
                out.append({"params": mp, "names": [], "funs": [f, g], "consts": [], "macros": [], "body": ("call", "G", [("var", "P1"), ("var", "P2")], None), "tag": "resttail_%s_%s_%s" % (lk, fk, gk)})
                # and directly in the main expression
                tail2 = ("let", lk, [("P2", ("op", "+", [("var", "P2"), ("int", 1)]))], ("list", [("var", "P2")]), False)
                out.append({"params": mp, "names": [], "funs": [f], "consts": [], "macros": [], "body": ("call", "F", [("var", "P1")], tail2), "tag": "resttail_main_%s_%s" % (lk, fk)})
    # two-level destructuring of one parameter, every name, inline and not
    shapes = {
        "headlist": ("p", [("p", [("n", "A", "I"), ("n", "B", "I")], None), ("n", "C", "I"), ("n", "D", "I")], None),
        "taillist": ("p", [("n", "A", "I"), ("p", [("n", "B", "I"), ("n", "C", "I")], None), ("n", "D", "I")], None),
        "both": ("p", [("p", [("n", "A", "I"), ("n", "B", "I")], None), ("p", [("n", "C", "I"), ("n", "D", "I")], None)], None),
        "dotted": ("p", [("p", [("n", "A", "I"), ("n", "B", "I")], ("n", "C", "L")), ("n", "D", "I")], None),
    }
    for sname, sp in shapes.items():
        for kind in ("inline", "defun"):
            for pick in ("A", "B", "C", "D"):
                if sname == "dotted" and pick == "C":
                    continue
                f = {"name": "G", "kind": kind, "params": ("p", [("n", "Q", "I"), sp], None), "names": [], "body": ("var", pick), "rtype": "I"}
                mp = ("p", [("n", "X", "I"), sp], None)
                # pass the main program's own destructured components back in the same shape
                def rebuild(p):
                    if p[0] == "n":
                        return ("var", p[1]) if p[2] == "I" else ("var", p[1])
                    items = [rebuild(x) for x in p[1]]
                    r = ("list", items) if p[2] is None else None
                    if r is None:
                        r = rebuild(p[2])
                        for it in reversed(items):
                            r = ("cons", it, r)
                    return r
                body = ("call", "G", [("var", "X"), rebuild(sp)], None)
                out.append({"params": mp, "names": [], "funs": [f], "consts": [], "macros": [], "body": body, "tag": "destr_%s_%s_%s" % (sname, kind, pick)})
    # an @ capture nested one and two levels inside a destructured parameter, every name read, inline and not
    for kind in ("defun", "inline"):
        for depth in (1, 2):
            cap = ("@", "PT", ("p", [("n", "P", "I"), ("n", "Q", "I")], None))
            inner = ("p", [("n", "A", "I"), cap], None) if depth == 1 else ("p", [("n", "A", "I"), ("p", [cap, ("n", "B", "I")], None)], None)
            for pick in ("A", "P", "Q", "Z"):
                f = {"name": "NCAP", "kind": kind, "params": ("p", [inner, ("n", "Z", "I")], None), "names": [], "body": ("var", pick), "rtype": "I"}
                mp3 = ("p", [("n", "X1", "I"), ("n", "X2", "I"), ("n", "X3", "I"), ("n", "X4", "I")], None)
                pq = ("list", [("var", "X2"), ("var", "X3")])
                arg = ("list", [("var", "X1"), pq]) if depth == 1 else ("list", [("var", "X1"), ("list", [pq, ("int", 77)])])
                out.append({"params": mp3, "names": [], "funs": [f], "consts": [], "macros": [], "body": ("call", "NCAP", [arg, ("var", "X4")], None), "tag": "nestedcap_%s_%d_%s" % (kind, depth, pick)})
    # a (mod ...) form written literally in the main expression, next to calls of ordinary functions
    for nf in (1, 2):
        fs = [{"name": "DBLM", "kind": "defun", "params": ("p", [("n", "A", "I")], None), "names": [], "body": ("op", "*", [("var", "A"), ("int", 2)]), "rtype": "I"}]
        body = ("call", "DBLM", [("var", "X")], None)
        if nf == 2:
            fs.append({"name": "ADDM", "kind": "defun", "params": ("p", [("n", "A", "I"), ("n", "B", "I")], None), "names": [], "body": ("op", "+", [("call", "DBLM", [("var", "A")], None), ("var", "B")]), "rtype": "I"})
            body = ("call", "ADDM", [("var", "X"), ("var", "Y")], None)
        out.append({"params": ("p", [("n", "X", "I"), ("n", "Y", "I")], None), "names": [], "funs": fs, "consts": [], "macros": [], "body": ("modwrap", body), "tag": "embeddedmod_%d" % nf})
    # an @ capture used inside a branch of an if, bound to an argument with more structure than the sub-pattern names
    for kind in ("defun", "inline"):
        for shape in ("extra", "exact"):
            pick = {"name": "PICK", "kind": kind, "params": ("p", [("n", "A", "I"), ("@", "Z", ("p", [("n", "B", "I"), ("n", "C", "I")], None))], None), "names": [],
                    "body": ("if", ("var", "A"), ("var", "Z"), ("list", [("var", "B"), ("var", "C")])), "rtype": "L"}
            arg = ("list", [("var", "Y"), ("int", 3)] + ([("int", 4), ("var", "X")] if shape == "extra" else []))
            out.append({"params": ("p", [("n", "X", "I"), ("n", "Y", "I")], None), "names": [], "funs": [pick], "consts": [], "macros": [],
                        "body": ("call", "PICK", [("var", "X"), arg], None), "tag": "atcapture_%s_%s" % (shape, kind)})
    # conditions that are zero-valued NON-EMPTY literal atoms (true for the consensus evaluator), decided at compile
    # time in the main expression / an inline function, at run time through a defun
    for lit in (b"\x00", b"\x00\x00"):
        mp2 = ("p", [("n", "A", "I"), ("n", "B", "I")], None)
        out.append({"params": mp2, "names": [], "funs": [], "consts": [], "macros": [], "body": ("if", ("hex", lit), ("var", "A"), ("var", "B")), "tag": "zerocond_main_%d" % len(lit)})
        for kind in ("defun", "inline"):
            f = {"name": "SEL", "kind": kind, "params": ("p", [("n", "C", "I"), ("n", "X", "I"), ("n", "Y", "I")], None), "names": [], "body": ("if", ("var", "C"), ("var", "X"), ("var", "Y")), "rtype": "I"}
            out.append({"params": mp2, "names": [], "funs": [f], "consts": [], "macros": [], "body": ("call", "SEL", [("hex", lit), ("var", "A"), ("var", "B")], None), "tag": "zerocond_%s_%d" % (kind, len(lit))})
    # conditions that are compile-time constant PAIRS (true): a quoted list, a cons of literals, a list-valued constant
    mp2 = ("p", [("n", "A", "I"), ("n", "B", "I")], None)
    for ci, cond in enumerate((("q", srcgen.pylist([1, 2])), ("cons", ("int", 1), ("int", 2)), ("list", [("int", 0)]), ("const", "KL"))):
        consts = [("KL", "defconstant", ("q", srcgen.pylist([3])))] if cond[0] == "const" else []
        out.append({"params": mp2, "names": [], "funs": [], "consts": consts, "macros": [], "body": ("if", cond, ("var", "A"), ("var", "B")), "tag": "paircond_main_%d" % ci})
        for kind in ("defun", "inline"):
            f = {"name": "SELP", "kind": kind, "params": ("p", [("n", "C", "L"), ("n", "X", "I"), ("n", "Y", "I")], None), "names": [], "body": ("if", ("var", "C"), ("op", "+", [("var", "X"), ("int", 1)]), ("op", "*", [("var", "Y"), ("int", 2)])), "rtype": "I"}
            g = {"name": "INNER", "kind": "defun", "params": ("p", [("n", "X", "I"), ("n", "Y", "I")], None), "names": [], "body": ("if", cond, ("op", "+", [("var", "X"), ("int", 1)]), ("op", "*", [("var", "Y"), ("int", 2)])), "rtype": "I"}
            out.append({"params": mp2, "names": [], "funs": [f], "consts": consts, "macros": [], "body": ("call", "SELP", [cond, ("var", "A"), ("var", "B")], None), "tag": "paircond_%s_%d" % (kind, ci)})
            if kind == "defun":
                out.append({"params": mp2, "names": [], "funs": [g], "consts": consts, "macros": [], "body": ("call", "INNER", [("var", "A"), ("var", "B")], None), "tag": "paircond_body_%d" % ci})
    # lambdas with two or three captures of which some are known constants at the creation site and others are not
    for kind in ("defun", "inline"):
        for order in (("K", "M"), ("M", "K"), ("K", "M", "N"), ("M", "K", "N")):
            caps = list(order)
            body = ("op", "+", [("op", "*", [("var", "K"), ("int", 100)]), ("op", "*", [("var", "M"), ("int", 10)]), ("var", "Q")] + ([("op", "*", [("var", "N"), ("int", 1000)])] if "N" in caps else []))
            lam = ("lambda", caps, ["Q"], body, [("int", 5)])
            f = {"name": "MKL", "kind": kind, "params": ("p", [("n", "K", "I"), ("n", "M", "I"), ("n", "N", "I")], None), "names": [], "body": lam, "rtype": "I"}
            mp4 = ("p", [("n", "X", "I"), ("n", "Y", "I")], None)
            out.append({"params": mp4, "names": [], "funs": [f], "consts": [], "macros": [], "body": ("call", "MKL", [("int", 3), ("var", "X"), ("var", "Y")], None), "tag": "lamcap_%s_%s" % (kind, "".join(caps))})
    # a parameter whose only use sits below ~110 nested operator calls / at the end of a 122-element list
    mp5 = ("p", [("n", "AA", "I"), ("n", "BB", "I"), ("n", "CC", "I")], None)
    deep = ("var", "BB")
    for _ in range(110):
        deep = ("op", "+", [("int", 1), deep])
    out.append({"params": mp5, "names": [], "funs": [], "consts": [], "macros": [], "body": ("op", "+", [("var", "AA"), deep]), "tag": "deepnest_main"})
    out.append({"params": mp5, "names": [], "funs": [{"name": "DEEPF", "kind": "defun", "params": ("p", [("n", "P", "I")], None), "names": [], "body": ("op", "+", [("int", 1), deep[2][1]]) if False else ("var", "P"), "rtype": "I"}],
                "consts": [], "macros": [], "body": ("op", "+", [("var", "AA"), ("call", "DEEPF", [deep], None)]), "tag": "deepnest_arg"})
    out.append({"params": mp5, "names": [], "funs": [], "consts": [], "macros": [], "body": ("list", [("int", i if i != 64 else 164) for i in range(121)] + [("var", "BB")]), "tag": "deepnest_list"})
    # functions whose compiled code is identical (one symbol-table key for both) but whose parameter lists differ
    def fn(name, params, body, kind="defun"):
        return {"name": name, "kind": kind, "params": ("p", [("n", x, "I") for x in params], None), "names": [], "body": body, "rtype": "I"}
    mp = ("p", [("n", "X", "I"), ("n", "Y", "I")], None)
    out.append({"params": mp, "names": [], "funs": [fn("INC", ["N"], ("op", "+", [("var", "N"), ("int", 1)])), fn("BUMP", ["M"], ("op", "+", [("var", "M"), ("int", 1)]))],
                "consts": [], "macros": [], "body": ("op", "+", [("call", "INC", [("var", "X")], None), ("call", "BUMP", [("var", "Y")], None)]), "tag": "samecode_names"})
    out.append({"params": mp, "names": [], "funs": [fn("DBL", ["A"], ("op", "*", [("var", "A"), ("int", 2)])), fn("DBL2", ["P", "Q"], ("op", "*", [("var", "P"), ("int", 2)]))],
                "consts": [], "macros": [], "body": ("op", "+", [("call", "DBL", [("var", "X")], None), ("call", "DBL2", [("var", "Y"), ("int", 7)], None)]), "tag": "samecode_shape"})
    out.append({"params": mp, "names": [], "funs": [fn("DBL2", ["P", "Q"], ("op", "*", [("var", "P"), ("int", 2)])), fn("DBL", ["A"], ("op", "*", [("var", "A"), ("int", 2)]))],
                "consts": [], "macros": [], "body": ("op", "-", [("call", "DBL2", [("var", "Y"), ("int", 7)], None), ("call", "DBL", [("var", "X")], None)]), "tag": "samecode_shape_rev"})
    return out


def compute(ck, n_programs, depth=2, dialects=None, want_syms=False):
    """returns list of records; cached per (harness, seed, tier, n)"""
    dialects = dialects or DIALECTS
    key = "%s-%s-%s-%d-%d" % (harness_key(), ck.seed, ck.tier, n_programs, depth)
    cpath = os.path.join(vlib.CACHE, "matrix-%s.pkl" % key)
    if os.path.exists(cpath):
        try:
            return pickle.load(open(cpath, "rb"))
        except Exception:
            pass
    rng = random.Random(ck.seed * 7919 + 13)
    progs = []
    for p in fixed_programs():
        progs.append(p)
    for i in range(n_programs):
        g = srcgen.Gen(rng, depth=depth if rng.random() < 0.85 else depth + 1)
        p = g.program()
        p["tag"] = "generated"
        progs.append(p)
    for i in range(n_programs // 2):
        g = srcgen.Gen(rng, features={"defun", "inline", "const", "macro", "nested", "strings", "at", "qconst"}, depth=depth if rng.random() < 0.85 else depth + 1)
        p = g.program()
        p["tag"] = "generated_classic_surface"
        progs.append(p)
    recs = []
    lines = []
    meta = []
    for i, p in enumerate(progs):
        args = [srcgen.gen_args(p, rng) for _ in range(3)]
        ref = []
        for a in args:
            try:
                ref.append(("OK", srcgen.to_clvm(srcgen.evaluate(p, a))))
            except srcgen.Fail:
                ref.append(("FAIL", None))
        rec = {"prog": p, "args": args, "args_clvm": [srcgen.to_clvm(a) for a in args], "ref": ref, "builds": {}}
        recs.append(rec)
        for d in dialects:
            if not srcgen.renderable(p, d):
                continue
            src = srcgen.render(p, d)
            for opt in (True, False):
                rec["builds"][(d, opt)] = {"src": src, "known": srcgen.known_class(p, d, opt)}
                lines.append("compile\t%s\t\t%s" % ("1" if opt else "0", src.encode().hex()))
                meta.append((i, d, opt))
    res = vlib.impl(lines, timeout_line=45)
    runl = []
    rmeta = []
    for (i, d, opt), r in zip(meta, res):
        b = recs[i]["builds"][(d, opt)]
        b["compile"] = r if not r.startswith("OK ") else "OK"
        if r.startswith("OK "):
            parts = r[3:].split("\t")
            b["code"] = parts[0]
            # cl22: a compiler-renamed identifier (NAME_$_n) emitted as a constant is the identifier leak D18 whatever the
            # program's shape; the bytes also vary with the fresh-name counter
            if d == "cl22" and "5f245f" in parts[0] and not b["known"]:
                b["known"] = "D18-cl22-identifier-leak"
            b["syms"] = parts[1] if len(parts) > 1 else "{}"
            for k, a in enumerate(recs[i]["args_clvm"]):
                runl.append("run\t2\t%s\t%s" % (b["code"], a))
                rmeta.append((i, d, opt, k))
            b["runs"] = [None] * len(recs[i]["args_clvm"])
    rr = vlib.impl(runl, timeout_line=60)
    for (i, d, opt, k), r in zip(rmeta, rr):
        recs[i]["builds"][(d, opt)]["runs"][k] = r
    try:
        for f in os.listdir(vlib.CACHE):
            if f.startswith("matrix-") and f != os.path.basename(cpath):
                os.remove(os.path.join(vlib.CACHE, f))
        pickle.dump(recs, open(cpath, "wb"))
    except Exception:
        pass
    return recs


def norm_run(r):
    if r is None:
        return "NONE"
    if r.startswith("OK "):
        return r
    if r in ("TIMEOUT",):
        return "LIMIT"
    return "FAIL"


def witnesses(ck):
    """replay the witnesses of the open known findings of the language-level classes; returns {id: still_fails}"""
    out = {}
    lines = []
    ws = []
    for k in vlib.load_known():
        w = k.get("witness_build")
        if k.get("status") == "open" and w:
            ws.append((k, w))
            lines.append("compile\t%s\t\t%s" % ("1" if w["opt"] else "0", w["src"].encode().hex()))
    if not ws:
        return out
    res = vlib.impl(lines, timeout_line=45)
    runl = []
    idx = []
    for (k, w), r in zip(ws, res):
        if not r.startswith("OK "):
            out[k["id"]] = (w.get("expect") == "compile-fail")
            continue
        runl.append("run\t2\t%s\t%s" % (r[3:].split("\t")[0], w["args"]))
        idx.append((k, w))
    rr = vlib.impl(runl, timeout_line=60) if runl else []
    for (k, w), r in zip(idx, rr):
        out[k["id"]] = (r != "OK " + w["want"])
    return out
