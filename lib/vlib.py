"""Shared machinery for the property checks (see DESIGN.md sections 4 and 5)."""
import hashlib
import json
import os
import random
import re
import shutil
import subprocess
import sys
import tempfile
import threading
import time

VERIF = os.path.dirname(os.path.dirname(os.path.abspath(__file__)))
REPO = os.environ.get("VERIF_REPO", "/repo")
CACHE = os.path.join(VERIF, ".cache")
TARGET = os.path.join(CACHE, "target")
COQ = os.path.join(VERIF, "coq")
OCAML = os.path.join(VERIF, "ocaml")
HARNESS_BIN = os.path.join(TARGET, "debug", "vharness")
DRIVER_BIN = os.path.join(CACHE, "ocaml", "driver")
NPROC = int(os.environ.get("VERIF_NPROC", "16"))
HOOK_CFG = "chialisp_verif"

ENV = dict(os.environ)
ENV["CARGO_NET_OFFLINE"] = "true"
ENV.setdefault("RUSTUP_TOOLCHAIN", "stable-x86_64-unknown-linux-gnu")
ENV["CARGO_TARGET_DIR"] = TARGET


class InfraError(Exception):
    """the machinery itself could not run (build failure etc.)"""


def log(*a):
    print(*a, file=sys.stderr, flush=True)


def sh(cmd, cwd=None, timeout=None, env=None, check=False, input=None):
    p = subprocess.run(cmd, cwd=cwd, timeout=timeout, env=env or ENV, input=input,
                       stdout=subprocess.PIPE, stderr=subprocess.STDOUT, text=True)
    if check and p.returncode != 0:
        raise InfraError("command failed: %s\n%s" % (" ".join(cmd), p.stdout[-4000:]))
    return p.returncode, p.stdout


# ------------------------------------------------------------------ building

_lock_file = None


def global_lock():
    """serialise builds between concurrently running checks"""
    global _lock_file
    import fcntl
    os.makedirs(CACHE, exist_ok=True)
    _lock_file = open(os.path.join(CACHE, "build.lock"), "w")
    fcntl.flock(_lock_file, fcntl.LOCK_EX)


def global_unlock():
    global _lock_file
    import fcntl
    if _lock_file:
        fcntl.flock(_lock_file, fcntl.LOCK_UN)
        _lock_file.close()
        _lock_file = None


def build_harness(hooks=True):
    """(re)build the harness against /repo's current working tree"""
    hdir = os.path.join(VERIF, "harness")
    src_lock = os.path.join(REPO, "Cargo.lock")
    dst_lock = os.path.join(hdir, "Cargo.lock")
    if not os.path.exists(dst_lock) or open(src_lock).read() != open(dst_lock).read():
        # take the repository's pinned versions, then let cargo add the harness itself
        shutil.copy(src_lock, dst_lock)
    env = dict(ENV)
    if hooks:
        env["RUSTFLAGS"] = "--cfg %s" % HOOK_CFG
    t0 = time.time()
    rc, out = sh(["cargo", "build", "--offline", "--quiet"], cwd=hdir, env=env, timeout=3000)
    if rc != 0:
        raise InfraError("harness build failed:\n" + out[-6000:])
    log("[build] harness ok in %.1fs" % (time.time() - t0))
    return HARNESS_BIN


def run_translator():
    rc, out = sh([sys.executable, os.path.join(VERIF, "translator", "gen.py")], cwd=VERIF, timeout=120)
    return rc, out


def coq_makefile():
    mk = os.path.join(COQ, "Makefile")
    cp = os.path.join(COQ, "_CoqProject")
    if not os.path.exists(mk) or os.path.getmtime(mk) < os.path.getmtime(cp):
        sh(["coq_makefile", "-f", "_CoqProject", "-o", "Makefile"], cwd=COQ, check=True, timeout=120)


def coq_make(targets, timeout=3000):
    """make the given .vo targets (relative to coq/). returns (ok, output)"""
    coq_makefile()
    rc, out = sh(["make", "-j%d" % NPROC] + targets, cwd=COQ, timeout=timeout)
    return rc == 0, out


FORBIDDEN = re.compile(r"\b(Admitted|admit|Axiom|Axioms|Parameter|Parameters|Conjecture|Conjectures|Hypothesis|Hypotheses|Variable|Variables)\b|Unset\s+Guard|bypass_check|Admit\s+Obligations|type-in-type|impredicative-set|Unset\s+Universe\s+Checking|Unset\s+Positivity")


def strip_coq_comments(txt):
    out = []
    depth = 0
    i = 0
    n = len(txt)
    while i < n:
        if txt.startswith("(*", i):
            depth += 1
            i += 2
        elif txt.startswith("*)", i) and depth > 0:
            depth -= 1
            i += 2
        else:
            if depth == 0:
                out.append(txt[i])
            elif txt[i] == "\n":
                out.append("\n")
            i += 1
    return "".join(out)


def coq_source_audit():
    """no Admitted/Axiom/... anywhere in the development (Variables only inside Sections)"""
    bad = []
    for root, _, files in os.walk(COQ):
        for f in files:
            if not f.endswith(".v"):
                continue
            p = os.path.join(root, f)
            txt = strip_coq_comments(open(p).read())
            depth = 0
            for ln, line in enumerate(txt.split("\n"), 1):
                if re.match(r"\s*Section\b", line):
                    depth += 1
                if re.match(r"\s*End\b", line) and depth > 0:
                    depth -= 1
                m = FORBIDDEN.search(line)
                if m:
                    w = m.group(0)
                    if w.startswith(("Variable", "Hypothes", "Context")) and depth > 0:
                        continue
                    bad.append("%s:%d: %s" % (os.path.relpath(p, COQ), ln, line.strip()))
    return bad


ALLOWED_AXIOMS = set()   # none needed so far; stdlib axioms would be named here and in DESIGN.md


def coq_assumptions(prop):
    """compile Audit/<prop>_audit.v (Print Assumptions of every property theorem) and
    return (ok, {theorem: [axioms]}, raw)"""
    src = os.path.join(COQ, "Props", prop + ".v")
    txt = strip_coq_comments(open(src).read())
    thms = re.findall(r"^\s*(?:Theorem|Corollary)\s+(\w+)", txt, re.M)
    adir = os.path.join(CACHE, "audit")
    os.makedirs(adir, exist_ok=True)
    apath = os.path.join(adir, prop + "_audit.v")
    with open(apath, "w") as f:
        f.write("From CV Require Import Props.%s.\n" % prop)
        for t in thms:
            f.write('Goal True. idtac "THEOREM %s". Abort.\nPrint Assumptions %s.\n' % (t, t))
    rc, out = sh(["coqc", "-Q", COQ, "CV", "-noglob", "-o", os.path.join(adir, prop + "_audit.vo"), apath], cwd=adir, timeout=600)
    if rc != 0:
        return False, {}, out
    res = {}
    cur = None
    for line in out.split("\n"):
        m = re.match(r"THEOREM (\w+)", line)
        if m:
            cur = m.group(1)
            res[cur] = []
            continue
        if cur is None:
            continue
        if "Closed under the global context" in line or line.startswith("Axioms:") or not line.strip():
            continue
        m = re.match(r"^(\S+)\s*:", line)
        if m and not line.startswith(" "):
            res[cur].append(m.group(1))
    ok = all(set(v) <= ALLOWED_AXIOMS for v in res.values()) and len(res) == len(thms) and len(thms) > 0
    return ok, res, out


def build_driver():
    """extract the executable model and build the OCaml driver"""
    odir = os.path.join(CACHE, "ocaml")
    os.makedirs(odir, exist_ok=True)
    global MODEL_AVAILABLE
    ok, out = coq_make(["Extract/Extract.vo"])
    if not ok:
        # the model no longer compiles against what the translator read from the source (or a proof-free model file
        # broke): that is a broken tie, reported by Check.proof(); the implementation-side checks still run and look
        # for a concrete failing input, the model side answers MODEL-UNAVAILABLE
        MODEL_AVAILABLE = False
        sys.stderr.write("[build] extraction failed: the model side is unavailable for this run\n")
        return None
    # Extract.v writes model.ml / model.mli into coq/ (cwd of coqc)
    for f in ("model.ml", "model.mli"):
        src = os.path.join(COQ, f)
        if not os.path.exists(src):
            raise InfraError("extraction did not produce " + f)
    stamp = os.path.join(odir, "stamp")
    h = hashlib.sha256()
    for f in (os.path.join(COQ, "model.ml"), os.path.join(COQ, "model.mli"), os.path.join(OCAML, "driver.ml")):
        h.update(open(f, "rb").read())
    dig = h.hexdigest()
    if os.path.exists(stamp) and open(stamp).read() == dig and os.path.exists(DRIVER_BIN):
        return DRIVER_BIN
    for f in ("model.ml", "model.mli"):
        shutil.copy(os.path.join(COQ, f), os.path.join(odir, f))
    shutil.copy(os.path.join(OCAML, "driver.ml"), os.path.join(odir, "driver.ml"))
    rc, out = sh(["ocamlfind", "ocamlopt", "-O2" if False else "-inline", "50", "-w", "-a", "-package", "str", "-linkpkg",
                  "model.mli", "model.ml", "driver.ml", "-o", "driver"], cwd=odir, timeout=1200)
    if rc != 0:
        raise InfraError("driver build failed:\n" + out[-4000:])
    open(stamp, "w").write(dig)
    return DRIVER_BIN


# ------------------------------------------------------------------ batch execution

def _run_shard(cmd, lines, timeout_line, results, offset, env=None, cwd=None):
    """run lines through `cmd` (a line-in/line-out server); survive crashes and hangs"""
    i = 0
    n = len(lines)
    while i < n:
        p = subprocess.Popen(cmd, stdin=subprocess.PIPE, stdout=subprocess.PIPE, stderr=subprocess.DEVNULL,
                             text=True, env=env or ENV, cwd=cwd, preexec_fn=_unlimit_stack)
        start = i

        def feed(p=p, start=start):
            try:
                for l in lines[start:]:
                    p.stdin.write(l + "\n")
                p.stdin.close()
            except (BrokenPipeError, OSError, ValueError):
                pass
        th = threading.Thread(target=feed, daemon=True)
        th.start()
        state = {"last": time.time(), "done": False, "killed": False}

        def watchdog(p=p, state=state):
            while not state["done"]:
                time.sleep(0.5)
                if time.time() - state["last"] > timeout_line and not state["done"]:
                    state["killed"] = True
                    try:
                        p.kill()
                    except Exception:
                        pass
                    return
        wd = threading.Thread(target=watchdog, daemon=True)
        wd.start()
        while i < n:
            line = p.stdout.readline()
            if not line:
                break
            results[offset + i] = line.rstrip("\n")
            i += 1
            state["last"] = time.time()
        state["done"] = True
        rc = p.wait()
        if i < n:
            # the process died (abort / stack overflow / kill on timeout) while working on line i
            if state["killed"]:
                results[offset + i] = "TIMEOUT"
            else:
                results[offset + i] = "ABORT rc=%s" % rc
            i += 1
        try:
            p.stdout.close()
        except Exception:
            pass


def _unlimit_stack():
    import resource
    try:
        resource.setrlimit(resource.RLIMIT_STACK, (resource.RLIM_INFINITY, resource.RLIM_INFINITY))
    except Exception:
        try:
            soft, hard = resource.getrlimit(resource.RLIMIT_STACK)
            resource.setrlimit(resource.RLIMIT_STACK, (hard, hard))
        except Exception:
            pass


def run_batch(cmd, lines, timeout_line=20, nproc=None, env=None, cwd=None):
    """feed `lines` to `nproc` copies of the server `cmd`; result i corresponds to line i"""
    nproc = nproc or NPROC
    n = len(lines)
    results = [None] * n
    if n == 0:
        return results
    nproc = max(1, min(nproc, (n + 7) // 8))
    # interleave so that expensive neighbours spread over the shards
    shards = [list(range(k, n, nproc)) for k in range(nproc)]
    threads = []
    outs = []
    for idxs in shards:
        sub = [lines[j] for j in idxs]
        res = [None] * len(sub)
        outs.append((idxs, res))
        t = threading.Thread(target=_run_shard, args=(cmd, sub, timeout_line, res, 0, env, cwd))
        t.start()
        threads.append(t)
    for t in threads:
        t.join()
    for idxs, res in outs:
        for j, r in zip(idxs, res):
            results[j] = r
    return results


def impl(lines, **kw):
    return run_batch([HARNESS_BIN, "batch"], lines, **kw)


MODEL_AVAILABLE = True


def model(lines, **kw):
    if not MODEL_AVAILABLE:
        return ["MODEL-UNAVAILABLE"] * len(lines)
    return run_batch([DRIVER_BIN], lines, **kw)


# ------------------------------------------------------------------ values (transport notation)

def atom(b):
    return "x" + bytes(b).hex()


def cons(a, b):
    return "(" + a + " " + b + ")"


def lst(items, tail="x"):
    r = tail
    for it in reversed(items):
        r = cons(it, r)
    return r


def int_atom(n):
    """minimal signed big-endian encoding, as CLVM integers"""
    if n == 0:
        return "x"
    l = (n.bit_length() + 8) // 8
    b = n.to_bytes(l, "big", signed=True)
    while len(b) > 1 and ((b[0] == 0 and b[1] < 0x80) or (b[0] == 0xff and b[1] >= 0x80)):
        b = b[1:]
    return "x" + b.hex()


def parse_val(s):
    """transport notation -> nested python: bytes or (l, r)"""
    toks = re.findall(r"\(|\)|x[0-9a-fA-F]*", s)
    st = []
    res = None
    for t in toks:
        if t == "(":
            st.append("(")
        elif t == ")":
            r = st.pop()
            l = st.pop()
            assert st.pop() == "("
            v = (l, r)
            if st:
                st.append(v)
            else:
                res = v
        else:
            v = bytes.fromhex(t[1:])
            if st:
                st.append(v)
            else:
                res = v
    return res


def show_val(v):
    if isinstance(v, (bytes, bytearray)):
        return "x" + bytes(v).hex()
    out = []
    st = [v]
    while st:
        x = st.pop()
        if isinstance(x, str):
            out.append(x)
        elif isinstance(x, (bytes, bytearray)):
            out.append("x" + bytes(x).hex())
        else:
            out.append("(")
            st.append(")")
            st.append(x[1])
            st.append(" ")
            st.append(x[0])
    return "".join(out)


# ------------------------------------------------------------------ findings / evidence / verdict

def load_known():
    p = os.path.join(VERIF, "known_findings.json")
    if not os.path.exists(p):
        return []
    return json.load(open(p)).get("findings", [])


class Check:
    """one run of one property's check"""

    def __init__(self, prop, tier, seed, level="proof"):
        self.prop = prop
        self.tier = tier
        self.seed = seed
        self.level = level
        self.t0 = time.time()
        self.rng = random.Random(seed)
        self.violations = []       # (replay_path, suffix)
        self.known_hits = {}       # finding id -> count
        self.cov = {"obligations": 0, "discharged": 0, "checker_cmd": "", "trusted_base": [],
                    "evaluations": 0, "distinct_nontrivial": 0, "rule": "", "samples": [],
                    "traces_validated_against_impl": 0, "disagreements_checked": 0}
        self.assumptions = []
        self.known = [k for k in load_known() if k.get("property") == prop or prop in k.get("also", [])]
        self.notes = []
        os.makedirs(os.path.join(VERIF, "replays"), exist_ok=True)
        for f in os.listdir(os.path.join(VERIF, "replays")):
            if f.startswith(prop + "-"):
                os.remove(os.path.join(VERIF, "replays", f))
        os.makedirs(os.path.join(VERIF, "evidence"), exist_ok=True)

    # -- reporting
    def replay_file(self, payload):
        payload = dict(payload)
        payload["property"] = self.prop
        payload["seed"] = self.seed
        txt = json.dumps(payload, indent=1, sort_keys=True, default=str)
        h = hashlib.sha256(txt.encode()).hexdigest()[:12]
        p = os.path.join(VERIF, "replays", "%s-%s.json" % (self.prop, h))
        with open(p, "w") as f:
            f.write(txt)
        return p

    def violation(self, payload, no_input=False):
        p = self.replay_file(payload)
        self.violations.append((p, " no-failing-input-found" if no_input else ""))
        return p

    def known_finding(self, fid, what=None):
        self.known_hits[fid] = self.known_hits.get(fid, 0) + 1

    def open_findings(self):
        return [k for k in self.known if k.get("status") == "open"]

    # -- proof side
    def proof(self, extra_targets=()):
        """translator + make Props/<prop>.vo + audits. Returns True iff everything checks.
        On failure records what broke in self.proof_failure (the caller runs the search)."""
        self.proof_failure = None
        global_lock()
        try:
            rc, out = run_translator()
            if rc != 0:
                self.proof_failure = {"stage": "translator", "detail": out[-3000:],
                                      "broken": "translator: /repo source no longer has the shape the translator maps into coq/Gen"}
            targets = ["Props/%s.vo" % self.prop] + list(extra_targets)
            ok, out = coq_make(targets)
            n_thm = 0
            if not ok:
                m = re.search(r'File "\./([^"]+)", line (\d+)[^\n]*\n(Error:.*?)(?:\n\n|\Z)', out, re.S)
                where = "%s line %s: %s" % (m.group(1), m.group(2), m.group(3)[:400]) if m else out[-1500:]
                if not self.proof_failure:
                    self.proof_failure = {"stage": "coq", "detail": out[-3000:], "broken": "Coq proof obligation no longer checks: " + where}
            bad = coq_source_audit()
            if bad:
                self.proof_failure = self.proof_failure or {"stage": "audit", "detail": "\n".join(bad), "broken": "forbidden declaration in the Coq development: " + bad[0]}
            thms = {}
            if ok:
                aok, thms, raw = coq_assumptions(self.prop)
                n_thm = len(thms)
                if not aok:
                    self.proof_failure = self.proof_failure or {"stage": "assumptions", "detail": raw[-3000:], "broken": "Print Assumptions not closed: %r" % thms}
        finally:
            global_unlock()
        self.cov["obligations"] += max(n_thm, 1)
        self.cov["discharged"] += n_thm if not self.proof_failure else 0
        self.cov["checker_cmd"] = "python3 translator/gen.py && make -C coq Props/%s.vo && coqc Audit(Print Assumptions) ; source audit for Admitted/Axiom/..." % self.prop
        self.cov["theorems"] = sorted(thms.keys())
        self.cov["axioms"] = sorted({a for v in thms.values() for a in v})
        return self.proof_failure is None

    # -- finishing
    def finish(self):
        wall = time.time() - self.t0
        for k in self.open_findings():
            if self.known_hits.get(k["id"]):
                print("KNOWN-FINDING: property=%s %s (%d cases this run; witness %s)" % (
                    self.prop, k["what_fails"], self.known_hits[k["id"]], k.get("witness")))
        cov = dict(self.cov)
        if not cov["samples"]:
            cov["samples"] = ["(none)"]
        cov["samples"] = cov["samples"][:12]
        ev = {
            "property_id": self.prop,
            "tier": self.tier,
            "seed": self.seed,
            "level": self.level,
            "coverage": cov,
            "assumptions": self.assumptions,
            "wall_s": round(wall, 2),
            "violations": len(self.violations),
            "known_findings_hit": self.known_hits,
            "notes": self.notes,
        }
        with open(os.path.join(VERIF, "evidence", self.prop + ".json"), "w") as f:
            json.dump(ev, f, indent=1, default=str)
        seen = set()
        for p, suffix in self.violations[:20]:
            if p in seen:
                continue
            seen.add(p)
            print("VIOLATION property=%s replay=%s%s" % (self.prop, p, suffix))
        sys.stdout.flush()
        return 1 if self.violations else 0
