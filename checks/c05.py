"""C05 - compilation is a pure function of source, include files and options."""
import json
import re
from concurrent.futures import ThreadPoolExecutor
import vlib
import srcgen
from checks import _lang as L

LEVEL = "proof"

FAILING = "(mod (X) (include *standard-cl-23*) (defun F (A) (UNBOUND_NAME A)) (F X))"
FAILINGS = ["(mod (X) (include *standard-cl-21*) (defun F (A) (G A)) (F X))",
            "(mod (X) (include *standard-cl-22*) (include missing-file.clib) X)",
            "(mod (X) (include *standard-cl-23*) (defun F (A) (UNBOUND_NAME A)) (F X))",
            "(mod (X) (include *standard-cl-24*) (defun F (A) (+ A",
            "(mod (X) (include *strict-cl-21*) (+ X UNBOUND_NAME))"]
OTHER = {"cl21": "(mod (X) (include *standard-cl-24*) (defun F (A) (let ((B (+ A 1))) (* B B))) (F X))",
         "default": "(mod (X) (include *standard-cl-21*) (defun-inline G (A) (let ((B (+ A 1))) (* B B))) (list (G X) (G 3)))"}


def user_visible(out):
    """code and the symbol entries a user can see (names without generated suffixes)"""
    if not out.startswith("OK "):
        return out
    parts = out[3:].split("\t")
    code = parts[0]
    syms = parts[1] if len(parts) > 1 else "{}"
    try:
        d = json.loads(syms)
    except Exception:
        d = {"?": syms}
    keep = {k: v for k, v in d.items() if "_$_" not in v and "_$_" not in k}
    return code + " " + json.dumps(keep, sort_keys=True)


def sibling(src):
    """the same program with the bodies of its macros (and a constant) changed: same names, other meaning"""
    t = src.replace("(qq (+ ", "(qq (@@ ").replace("(qq (- ", "(qq (+ ").replace("(qq (* ", "(qq (- ").replace("(qq (@@ ", "(qq (* ")
    t = re.sub(r"\(defconstant (K\d+) (-?\d+)\)", lambda m: "(defconstant %s %d)" % (m.group(1), int(m.group(2)) + 1), t)
    return t


def run_histories(hists):
    with ThreadPoolExecutor(max_workers=vlib.NPROC) as ex:
        return list(ex.map(lambda h: vlib.run_batch([vlib.HARNESS_BIN, "batch"], h, timeout_line=120, nproc=1), hists))


def run(ck):
    proved = ck.proof()
    recs, wit = L.load(ck)
    rng = ck.rng
    direct = []
    corr = []
    cand = [r for r in recs if r["prog"].get("tag", "").startswith("generated")]
    # programs with several helpers first (the optimisers' searches are where iteration order could matter)
    cand.sort(key=lambda r: -len(r["prog"]["funs"]))
    cand = cand[:30 if ck.tier == "quick" else 250]
    jobs = []
    for r in cand:
        for d in srcgen.SIGILS:
            b = r["builds"].get((d, True))
            if b and b["compile"] == "OK":
                jobs.append((r, d, b["src"]))
    rng.shuffle(jobs)
    jobs = jobs[:28 if ck.tier == "quick" else 600]
    # hand-written targets whose bytes depend on the integer-conversion mode if it leaks: zero-valued literals of
    # several spellings in a function body, an inline function, a constant and the main expression
    for d, sig in srcgen.SIGILS.items():
        if not sig:
            continue
        for body in ("(defun F (A) (c 0x00 A)) (F X)", "(defun-inline F (A) (c 0x0000 (c 0 A))) (F X)", "(defconstant K 0x00) (defun F (A) (list K A 0)) (F X)", "(c 0x00 (c (q . 0) X))"):
            jobs.append(({"fixed": True}, d, "(mod (X) %s %s)" % (sig, body)))
    # user macros of the new kind (defmac, strict dialects): the same macro NAME with another body compiled earlier in the
    # process must not leak into a later compilation
    for d in ("strict21", "cl23", "cl23.1", "cl24"):
        for op in ("+", "-", "*"):
            jobs.append(({"fixed": True}, d, "(mod (X Y) %s (defmac MM (A B) (qq (%s (unquote A) (unquote B)))) (defun F (P) (MM P 5)) (c (MM X Y) (F Y)))" % (srcgen.SIGILS[d], op)))
    hists = []
    meta = []
    ctrs = [0, 8, 9, 98, 99, 998, 999, 99999, 10 ** 9 - 1]
    for r, d, src in jobs:
        line = "compile\t1\t\t" + src.encode().hex()
        other = OTHER["cl21"] if d == "cl21" else OTHER["default"]
        variants = [
            ("fresh-1", [line]),
            ("fresh-2", [line]),
            ("counter", ["setctr\t%d" % rng.choice(ctrs), line]),
            ("counter-random", ["setctr\t%d" % rng.randrange(1, 10 ** 7), line]),
            ("after-other-dialect", ["compile\t1\t\t" + other.encode().hex(), line]),
            ("after-failure", ["compile\t1\t\t" + FAILING.encode().hex(), line]),
            ("after-failures-in-every-dialect", ["compile\t1\t\t" + f.encode().hex() for f in FAILINGS] + [line]),
            ("mode-after-failure-1", ["intmode\t1"] + ["compile\t1\t\t" + f.encode().hex() for f in FAILINGS] + [line, "getintmode"]),
            ("mode-after-failure-0", ["intmode\t0"] + ["compile\t1\t\t" + f.encode().hex() for f in FAILINGS] + [line, "getintmode"]),
            ("mode-flipped-0", ["intmode\t0", line, "getintmode"]),
            ("mode-flipped-1", ["intmode\t1", line, "getintmode"]),
            ("after-sibling-with-other-macro-bodies", ["compile\t1\t\t" + sibling(src).encode().hex(), line]),
            ("twice", [line, line]),
            ("threads", ["threads\t6\t1\t\t" + src.encode().hex()]),
        ]
        for name, h in variants:
            hists.append(h)
            meta.append((r, d, src, name))
    outs = run_histories(hists)
    base = {}
    nontrivial = 0
    for (r, d, src, name), h, o in zip(meta, hists, outs):
        key = (id(r), d, src)
        res = o[-2] if name.startswith("mode-") else o[-1]
        if name == "fresh-1":
            base[key] = res
            nontrivial += 1
            continue
        if name == "threads":
            touts = res.split(" ||| ")
            bad = [t for t in touts if user_visible(t) != user_visible(base[key])]
            if bad:
                direct.append({"clause": "a compilation running concurrently with others gives a different output", "dialect": d, "source": src,
                               "baseline": user_visible(base[key])[:400], "thread_output": user_visible(bad[0])[:400]})
            continue
        # a thread whose mode starts out as old-style is not a reachable history (every compilation restores the mode:
        # Sys/History.v, checked below); those variants only check the restoration, not the output
        artificial = name in ("mode-flipped-0", "mode-after-failure-0")
        if not artificial and user_visible(res) != user_visible(base[key]):
            direct.append({"clause": "the same source compiles to different output depending on the history of the process", "history": name, "dialect": d, "source": src,
                           "history_ops": [x.split("\t")[0] + (" " + x.split("\t")[1] if x.startswith(("setctr", "intmode")) else "") for x in h],
                           "baseline": user_visible(base[key])[:400], "this": user_visible(res)[:400]})
        if name == "twice" and user_visible(o[0]) != user_visible(o[1]):
            direct.append({"clause": "compiling twice in one process gives different outputs", "dialect": d, "source": src})
        if name.startswith("mode-"):
            want = "OK " + name[-1]
            if o[-1] != want:
                corr.append({"what": "a compilation (%s) does not restore the integer-conversion mode it found (Sys/History.v compile_restores_mode)" % ("failing" if "failure" in name else "successful"), "dialect": d, "set": name[-1], "observed_after": o[-1]})
        if name == "after-failure" and not o[0].startswith("ERR"):
            corr.append({"what": "the failing compilation of the history did not fail", "got": o[0][:200]})
    ck.cov["evaluations"] = sum(len(h) for h in hists)
    ck.cov["distinct_nontrivial"] = nontrivial * 9
    ck.cov["rule"] = ("generated programs (most helpers first) x every dialect in which they build; for each: 3 fresh processes (fresh hash seeds), fresh-name counter preset to 0/8/9/98/99/998/999/99999/10^9-1/random, "
                      "after a compilation of another dialect, after a failing compilation, with the integer mode left flipped either way, twice in one process, 8 concurrent threads; "
                      "compared: code bytes and user-visible symbol entries; non-trivial = (program, dialect, history) triples")
    ck.cov["samples"] = [{"dialect": jobs[0][1], "source": jobs[0][2][:600]}, meta[3][3], meta[8][3]] if jobs else ["(none)"]
    ck.cov["traces_validated_against_impl"] = 2 * len(jobs)
    ck.cov["disagreements_checked"] = len(corr)
    ck.cov["trusted_base"] = ["Coq 8.16.1 kernel", "harness glue (ARGNAME_CTR, NewStyleIntConversion are public)"]
    ck.assumptions = ["hash-seed and thread independence are explored, not proved: runtime behaviour the model cannot exhibit"]
    for x in direct[:8]:
        ck.violation({"kind": "direct", "failing": x})
    if not direct:
        if not proved:
            ck.violation({"kind": "proof-broken", "broken": ck.proof_failure["broken"], "detail": ck.proof_failure["detail"][-1500:],
                          "searched": "histories x programs x dialects: no differing output"}, no_input=True)
        elif corr:
            ck.violation({"kind": "correspondence-broken", "broken": "C05 tie: global state after a compilation vs Sys/History.v", "disagreements": corr[:10]}, no_input=True)


def replay(path):
    print(json.dumps(json.load(open(path)), indent=1)[:3000])
    return 0
