"""C09 - printed values and programs re-read to the identical value in both syntaxes."""
import itertools
import json
import vlib
from vlib import atom, cons, lst

LEVEL = "proof"


def gen_atoms(ck):
    rng = ck.rng
    out = [b""]
    for n in (1, 2):
        for t in itertools.product(range(256), repeat=n):
            out.append(bytes(t))
    alpha = [0x00, 0x01, 0x7f, 0x80, 0xff, 0x22, 0x27, 0x5c, 0x20, 0x28, 0x29, 0x2e, 0x3b, 0x23, 0x30, 0x39, 0x78, 0x58, 0x41, 0x61, 0x2d, 0x7e, 0x09, 0x0a]
    for t in itertools.product(alpha, repeat=3):
        out.append(bytes(t))
    if ck.tier == "thorough":
        for first in (0x00, 0x22, 0x27, 0x5c, 0x7f, 0x80, 0xff):
            for t in itertools.product(range(256), repeat=2):
                out.append(bytes((first,) + t))
    printable = [c for c in range(32, 127)]
    names = [b"q", b"a", b"if", b"sha256", b"concat", b"softfork", b"keccak256", b"coinid", b"+", b">s", b"mod", b"list"]
    for _ in range(1500 if ck.tier == "quick" else 20000):
        k = rng.random()
        n = rng.randint(3, 12)
        if k < 0.35:
            b = bytes(rng.choice(printable) for _ in range(n))
        elif k < 0.5:
            b = bytes(rng.choice([0x22, 0x27, 0x5c, 0x41, 0x20, 0x28, 0x29, 0x3b, 0x23, 0x2e]) for _ in range(n))
        elif k < 0.6:
            b = str(rng.choice([0, 1, -1, 127, 128, -128, -129, 255, 256, 65535, 2 ** 64, -(2 ** 70)])).encode()
        elif k < 0.7:
            b = ("0x" + "".join(rng.choice("0123456789abcdefABCDEF") for _ in range(rng.randint(0, 8)))).encode()
        elif k < 0.8:
            b = bytes([0] * rng.randint(1, 3)) + bytes(rng.getrandbits(8) for _ in range(rng.randint(0, 5)))
        elif k < 0.9:
            b = bytes([0xff] * rng.randint(1, 3)) + bytes(rng.getrandbits(8) for _ in range(rng.randint(0, 5)))
        else:
            b = bytes(rng.getrandbits(8) for _ in range(n))
        out.append(b)
    out += names
    seen = set()
    res = []
    for b in out:
        if b not in seen:
            seen.add(b)
            res.append(b)
    return res


def run(ck):
    proved = ck.proof()
    vlib.global_lock()
    try:
        vlib.build_harness()
    finally:
        vlib.global_unlock()
    rng = ck.rng
    atoms = gen_atoms(ck)
    vals = []
    for b in atoms:
        a = atom(b)
        vals.append(a)                                   # bare
        vals.append(lst([a, "x05"]))                     # head position
        vals.append(lst(["x05", a]))                     # non-head position
        vals.append(cons("x05", a))                      # improper tail
    pool = [atom(b) for b in rng.sample(atoms, min(400, len(atoms)))]

    def tree(d):
        if d == 0 or rng.random() < 0.3:
            return rng.choice(pool)
        return cons(tree(d - 1), tree(d - 1))
    for _ in range(400 if ck.tier == "quick" else 5000):
        vals.append(tree(rng.randint(1, 5)))
    vals = list(dict.fromkeys(vals))
    direct = []
    # ---- classic pair, versions 0,1,2
    lines = ["disassemble\t%d\t%s" % (ver, v) for ver in (0, 1, 2) for v in vals]
    dis = vlib.impl(lines, timeout_line=60)
    asm_lines = []
    idx = []
    for l, r in zip(lines, dis):
        if r.startswith("OK "):
            asm_lines.append("assemble\t" + r[3:])
            idx.append(l)
        else:
            direct.append({"clause": "the disassembler failed", "case": l[:200], "result": r[:200]})
    asm = vlib.impl(asm_lines, timeout_line=60)
    for l, al, r in zip(idx, asm_lines, asm):
        ver, v = l.split("\t")[1], l.split("\t")[2]
        if r != "OK " + v:
            direct.append({"clause": "assemble(disassemble(v)) != v", "operators_version": int(ver), "value": v[:300], "text": bytes.fromhex(al.split("\t")[1]).decode("latin1")[:300], "reassembled": r[:300]})
    # ---- modern printer in the fixed mode, read back by both readers
    conv = vlib.impl(["r_from_clvm\t1\t" + v for v in vals], timeout_line=60)
    pl = []
    pidx = []
    for v, r in zip(vals, conv):
        if r.startswith("OK "):
            pl.append("print_modern\t" + r[3:])
            pidx.append(v)
    # plus rich leaf spellings the reader itself produces (strings with either quote kind, hex constants)
    extra = []
    for b in atoms[:3000] if ck.tier == "quick" else atoms:
        if b:
            for q in ("22", "27", "78"):
                extra.append(("q%sx%s" % (q, b.hex()), atom(b)))
    for r, v in extra:
        pl.append("print_modern\t" + r)
        pidx.append(v)
        pl.append("print_modern\t(%s (i0x5 n))" % r)
        pidx.append(lst([v, "x05"]))
    printed = vlib.impl(pl, timeout_line=60)
    rd = []
    ridx = []
    for v, l, r in zip(pidx, pl, printed):
        if not r.startswith("OK "):
            direct.append({"clause": "the modern printer failed", "case": l[:200], "result": r[:200]})
            continue
        rd.append("parse_modern\t1\t" + r[3:])
        ridx.append((v, "modern reader", r[3:]))
        rd.append("assemble\t" + r[3:])
        ridx.append((v, "classic assembler", r[3:]))
    back = vlib.impl(rd, timeout_line=60)
    for (v, who, text), r in zip(ridx, back):
        if r != "OK " + v:
            direct.append({"clause": "text of the modern printer is not read back to the same value by the " + who, "value": v[:300],
                           "text": bytes.fromhex(text).decode("latin1")[:300], "read_back": r[:300]})
    ck.cov["evaluations"] = len(lines) + len(asm_lines) + len(pl) + len(rd) + len(vals)
    ck.cov["distinct_nontrivial"] = len(vals) + len(extra)
    ck.cov["rule"] = ("atoms: every byte string of length 0..2 (thorough: also every 3-byte string led by 00 22 27 5c 7f 80 ff), a 24-symbol alphabet cubed (quotes, backslash, parens, dot, semicolon, #, digits, x, control), random printable / punctuation / decimal and 0x look-alikes / "
                      "zero-padded / sign-extended / keyword names; each bare, in head position, in non-head position and as an improper tail, plus random trees; classic pair for operator-set versions 0,1,2; "
                      "modern printer (fixed mode) on converted values and on string / hex leaf spellings with both quote kinds, read back by the modern reader and by the classic assembler")
    ck.cov["samples"] = [vals[700], lines[5][:120], pl[-1][:120]]
    ck.cov["atoms"] = len(atoms)
    ck.cov["values"] = len(vals)
    ck.cov["traces_validated_against_impl"] = 0
    ck.cov["disagreements_checked"] = 0
    ck.cov["trusted_base"] = ["Coq 8.16.1 kernel", "translator/gen_consts.py gen_text (to_formal_string's switches, shape of pybytes_repr / consume_quoted)", "harness glue"]
    ck.assumptions = ["legacy integer mode is documented as lossy for zero-prefixed atoms and is excluded", "bare identifiers spelled like operators are outside the quantifier (print_safe)"]
    seen = set()
    for x in direct:
        key = (x["clause"], x.get("text", "")[:40])
        if key in seen:
            continue
        seen.add(key)
        if len(seen) > 8:
            break
        ck.violation({"kind": "direct", "failing": x})
    if not direct and not proved:
        ck.violation({"kind": "proof-broken", "broken": ck.proof_failure["broken"], "detail": ck.proof_failure["detail"][-1500:],
                      "searched": "all atoms <=2 bytes, alphabet^3, look-alikes, trees, 3 versions, both readers: no failing input"}, no_input=True)


def replay(path):
    d = json.load(open(path))
    f = d.get("failing", {})
    if "value" in f and "operators_version" in f:
        vlib.build_harness()
        r = vlib.impl(["disassemble\t%d\t%s" % (f["operators_version"], f["value"])])[0]
        print(bytes.fromhex(r[3:]).decode("latin1"), vlib.impl(["assemble\t" + r[3:]]))
    else:
        print(json.dumps(d, indent=1)[:3000])
    return 0
