"""C12 - the debugger's trace is a faithful account of the real execution."""
import json
import os
import shutil
import subprocess
import tempfile
import vlib
import clvmgen as G
import srcgen
from vlib import atom, cons, lst, int_atom
from checks import c06
from checks import _lang as L

LEVEL = "proof"


def run(ck):
    proved = ck.proof()
    vlib.global_lock()
    try:
        vlib.build_harness()
        vlib.build_driver()
    finally:
        vlib.global_unlock()
    rng = ck.rng
    direct = []
    corr = []
    hits = {}
    # ---- raw CLVM programs (typed random + small shapes) and compiled generated programs
    cases = []
    env3 = G.env_tree(3)
    eg = G.ExprGen(rng)
    for _ in range(500 if ck.tier == "quick" else 8000):
        cases.append((eg.expr(3, rng.randint(1, 6)), env3, "typed"))
    leafs = [G.NIL, "x01", "x02", "x05", G.q("x01"), G.q(G.NIL), lst([G.C, "x02", "x03"])]
    for op in (G.A, G.I, G.C, G.F, G.R, G.L, G.EQ, G.ADD, G.SUB, "x0b", "x0e", "x20"):
        for x in leafs:
            for y in leafs:
                cases.append((lst([op, x, y]), lst(["x01", "x02", "x03"]), "wf2"))
    recs, wit = L.load(ck)
    comp = 0
    for r in recs:
        for (d, opt), b in r["builds"].items():
            if b.get("compile") == "OK" and not b["known"] and rng.random() < (0.08 if ck.tier == "quick" else 0.5):
                cases.append((b["code"], r["args_clvm"][0], "compiled-" + d))
                comp += 1
    progs = list(dict.fromkeys([c[0] for c in cases] + [c[1] for c in cases]))
    conv = dict(zip(progs, vlib.impl(["r_from_clvm\t1\t" + v for v in progs], timeout_line=60)))
    lines = ["cldbrun\t1\t%s\t%s" % (conv[p][3:], conv[e][3:]) for p, e, _ in cases]
    hexlines = ["cldbrun\t1\t%s\t%s\t1" % (conv[p][3:], conv[e][3:]) for p, e, _ in cases]     # FAVOR_HEX presentation: values as hex
    out = vlib.impl(lines, timeout_line=120)
    outx = vlib.impl(hexlines, timeout_line=120)
    runs = vlib.impl(["run\t2\t%s\t%s" % (p, e) for p, e, _ in cases], timeout_line=60)
    mtr = vlib.model(["mcldb\t%s\t%s" % (p, e) for p, e, _ in cases], timeout_line=120)
    rowcheck = []
    rowmeta = []
    nrows = 0
    nontrivial = 0
    for (p, e, tag), o, ox, rr, mt in zip(cases, out, outx, runs, mtr):
        if not o.startswith("ENDED "):
            if o.startswith("LIMIT"):
                continue
            direct.append({"clause": "the debugger crashed or did not end", "program": p, "env": e, "result": o[:200]})
            continue
        try:
            rows = json.loads(ox.split(" ", 1)[1])
            rows_plain = json.loads(o.split(" ", 1)[1])
        except Exception:
            direct.append({"clause": "unreadable trace", "program": p, "env": e, "result": ox[:200]})
            continue
        feats = c06.features(vlib.parse_val(p)) | (c06.features(vlib.parse_val(e)) if c06.uses_apply(vlib.parse_val(p)) else set())
        lenient = bool(feats)
        nontrivial += 1
        # numbering
        for i, r in enumerate(rows_plain):
            if "Row" in r and int(r["Row"]) != i:
                direct.append({"clause": "rows are not numbered consecutively", "program": p, "env": e, "index": i, "row": r})
                break
        last = rows[-1] if rows else {}
        cons_ok = rr.startswith("OK ")
        if "Final" in last:
            fin = last["Final"]
            rowcheck.append("parse_modern\t1\t" + fin.encode().hex())
            rowmeta.append(("final", p, e, rr, lenient))
        elif ("Failure" in last or "Throw" in last):
            if cons_ok and not lenient:
                direct.append({"clause": "the trace ends with a failure entry but the consensus evaluator returns a value", "program": p, "env": e, "consensus": rr[:200], "last_row": last})
        else:
            direct.append({"clause": "the trace has no final or failure entry", "program": p, "env": e, "rows": rows[-2:]})
        for r in rows:
            if "Operator" in r and "Arguments" in r and "Value" in r:
                nrows += 1
                rowcheck.append("parse_modern\t1\t" + ("(%s %s %s)" % (r["Operator"], r["Arguments"], r["Value"])).encode().hex())
                rowmeta.append(("row", p, e, r, lenient))
        # correspondence with the model's trace: operator rows (opcode, value) in order, outside the leniency classes
        if not lenient and not c06.uses_unmodelled(p) and mt and not mt.startswith(("MODEL", "BADOP")) and "FAILURE" not in mt:
            mrows = [x.split(" ", 2) for x in mt.split(" | ") if x.startswith("OP ") and x.split(" ")[1] != "02"]   # apply rows carry no Arguments key
            irows = [r for r in rows if "Operator" in r and "Arguments" in r and "Value" in r]
            if len(mrows) != len(irows) and "FINAL" in mt:
                corr.append({"what": "number of operator rows differs from Step/Cldb.v's trace", "program": p, "env": e, "impl_rows": len(irows), "model_rows": len(mrows)})
    parsed = vlib.impl(rowcheck, timeout_line=60)
    evl = []
    evm = []
    for (kind, p, e, x, lenient), pr in zip(rowmeta, parsed):
        if not pr.startswith("OK "):
            direct.append({"clause": "a trace entry is not readable", "program": p, "env": e, "entry": x if kind == "row" else "final", "parse": pr[:200]})
            continue
        v = vlib.parse_val(pr[3:])
        if kind == "final":
            if x.startswith("OK "):
                if "OK " + vlib.show_val(v) != x:
                    kid = "c06" if lenient else None
                    if not lenient:
                        direct.append({"clause": "the final value differs from the consensus evaluator's result", "program": p, "env": e, "final": vlib.show_val(v), "consensus": x[:200]})
            elif not lenient:
                direct.append({"clause": "the trace ends with a final value but the consensus evaluator fails", "program": p, "env": e, "final": vlib.show_val(v), "consensus": x[:200]})
            continue
        # row: (op args value)
        op, rest = v[0], v[1]
        args, val = rest[0], rest[1][0]
        quoted = args
        items = []
        while isinstance(quoted, tuple):
            items.append(cons("x01", vlib.show_val(quoted[0])))
            quoted = quoted[1]
        prog = lst([vlib.show_val(op)] + items)
        evl.append("run\t2\t%s\tx" % prog)
        evm.append((p, e, x, vlib.show_val(val), lenient, op))
    ev = vlib.impl(evl, timeout_line=60)
    for (p, e, row, val, lenient, op), r in zip(evm, ev):
        if r != "OK " + val:
            if op == b"\x03":
                hits["D8-cldb-if-row"] = hits.get("D8-cldb-if-row", 0) + 1
                continue
            if lenient:
                continue
            direct.append({"clause": "a row is not true of the consensus evaluator: the operator applied to the arguments does not give the value", "program": p, "env": e, "row": row, "consensus_gives": r[:200]})
    # the D8 class is honoured only while its witness still fails
    w = vlib.impl(["cldbrun\t1\t%s\t%s" % (vlib.impl(["r_from_clvm\t1\t" + lst([G.C, "x05", lst([G.I, "x02", G.q("x01"), G.q("x02")])])])[0][3:], "(i0x1 (i0x63 n))")])[0]
    still = '"Operator":"3"' in w and '"Value":"99"' in w
    if still:
        for k, n in hits.items():
            ck.known_hits[k] = n
    elif hits:
        direct.append({"clause": "rows for the i operator are wrong although the recorded witness no longer fails", "count": hits})
    # ---- hex-supplied programs behave as their source form, plain and -t views (CLI)
    work = tempfile.mkdtemp(prefix="c12-", dir=vlib.CACHE)
    ncli = 0
    try:
        picked = [r for r in recs if r["prog"].get("tag", "").startswith("generated")]
        rng.shuffle(picked)
        def zero_atoms(v):
            """the argument value with every integer 0 replaced by the one-byte atom 0x00 (non-empty, zero-valued)"""
            if isinstance(v, tuple) and v != ():
                return (zero_atoms(v[0]), zero_atoms(v[1]))
            return b"\x00" if (isinstance(v, int) and not isinstance(v, bool) and v == 0) else v
        # programs whose result hangs on the truth of an argument, given zero-valued non-empty atoms: the debugger runs
        # them after compiling the source in the same thread (history matters for the integer mode)
        cli_jobs = []
        for sig in ("*standard-cl-21*", "*standard-cl-22*", "*standard-cl-23*", "*standard-cl-24*", ""):
            inc = ("(include %s) " % sig) if sig else ""
            for body, args in (("(defun pick (F A B) (if F A B)) (pick FLAG A B)", "(x00 (x0b (x16 x)))"), ("(if FLAG A B)", "(x0000 (x0b (x16 x)))"),
                               ("(defun-inline pick (F A B) (i F A B)) (pick (r FLAG) A B)", "((x01 x00) (x0b (x16 x)))")):
                cli_jobs.append(("(mod (FLAG A B) %s%s)" % (inc, body), None, args, "truth_of_zero_atom" if sig else "classic"))
        for r in picked[:8 if ck.tier == "quick" else 80]:
            for d in ("cl21", "cl23", "cl24"):
                b = r["builds"].get((d, True))
                if not b or b.get("compile") != "OK" or b["known"]:
                    continue
                cli_jobs.append((b["src"], b["code"], r["args_clvm"][0], d))
                cli_jobs.append((b["src"], b["code"], srcgen.to_clvm(zero_atoms(r["args"][0])), d))
                break
        for jsrc, jcode, jargs, d in cli_jobs:
            for _once in (1,):
                b = {"src": jsrc, "code": jcode}
                if jcode is None:
                    cr = vlib.impl(["compile\t1\t\t" + jsrc.encode().hex()], timeout_line=60)[0]
                    if not cr.startswith("OK "):
                        continue
                    b["code"] = cr[3:].split("\t")[0]
                src = os.path.join(work, "p.clsp")
                open(src, "w").write(b["src"])
                def val_text(v):
                    # every atom as a hex literal (the classic disassembler would print head atoms as operator names)
                    if isinstance(v, (bytes, bytearray)):
                        return ("0x" + bytes(v).hex()) if v else "()"
                    return "(%s . %s)" % (val_text(v[0]), val_text(v[1]))
                argtxt = val_text(vlib.parse_val(jargs))
                hexprog = vlib.impl(["ser\t" + b["code"]])[0][3:]
                hexargs = vlib.impl(["ser\t" + jargs])[0][3:]
                consensus = vlib.impl(["run\t2\t%s\t%s" % (b["code"], jargs)], timeout_line=60)[0]
                if len(hexprog) + len(hexargs) + len(argtxt) > 100000:
                    continue        # does not fit on a command line (the CLI takes the program as an argument)
                for view in ([], ["-t"]):
                    o_src = subprocess.run([vlib.HARNESS_BIN, "tool", "cldb", "-O"] + view + [src, argtxt], cwd=work, capture_output=True, text=True, timeout=300).stdout
                    o_hex = subprocess.run([vlib.HARNESS_BIN, "tool", "cldb", "-x"] + view + [hexprog, hexargs], cwd=work, capture_output=True, text=True, timeout=300).stdout
                    ncli += 2

                    def essence(t):
                        keep = []
                        for l in t.split("\n"):
                            l = l.strip().lstrip("- ")
                            for key in ("Operator:", "Arguments:", "Value:", "Final:", "Failure:", "Throw:"):
                                if l.startswith(key):
                                    txt = l[len(key):].strip()
                                    if txt.startswith('"') and txt.endswith('"'):
                                        txt = txt[1:-1].replace('\\"', '"')
                                    keep.append((key, txt))
                        if view:
                            keep = [k for k in keep if k[0] in ("Final:", "Failure:", "Throw:")][-1:]
                        # compare as values, not spellings
                        vals = vlib.impl(["parse_modern\t1\t" + k[1].encode().hex() for k in keep if k[0] not in ("Failure:",)], timeout_line=60)
                        it = iter(vals)
                        return [(k[0], next(it)) if k[0] != "Failure:" else (k[0], "") for k in keep]
                    es_ = essence(o_src)
                    fin = [k for k in es_ if k[0] in ("Final:", "Failure:", "Throw:")][-1:]
                    if consensus.startswith("OK ") and fin and fin[0][0] == "Final:":
                        fv = fin[0][1]
                        if fv != consensus:
                            direct.append({"clause": "the debugger's final value for a source program differs from the consensus result", "dialect": d, "view": view or ["plain"],
                                           "source": b["src"], "args": argtxt, "debugger_final": fv, "consensus": consensus})
                    elif consensus.startswith("OK ") and fin:
                        direct.append({"clause": "the debugger ends in a failure where the consensus evaluator returns", "dialect": d, "view": view or ["plain"], "source": b["src"], "args": argtxt,
                                       "debugger": fin, "consensus": consensus})
                    # (the debugger compiles a classic source with its own options: only sigil programs are claimed equal, C11)
                    if d != "classic" and essence(o_src) != essence(o_hex):
                        es, eh = essence(o_src), essence(o_hex)
                        k = next((i for i in range(min(len(es), len(eh))) if es[i] != eh[i]), min(len(es), len(eh)))
                        direct.append({"clause": "a hex-supplied program does not produce the trace of its source form", "dialect": d, "view": view or ["plain"], "source": b["src"], "args": argtxt,
                                       "first_difference": [es[k:k + 2], eh[k:k + 2]]})
    finally:
        shutil.rmtree(work, ignore_errors=True)
    ck.cov["evaluations"] = 4 * len(cases) + len(rowcheck) + len(evl) + ncli
    # the number of traced programs is stable across seeds; the number of rows depends on how long the sampled programs run
    ck.cov["distinct_nontrivial"] = len(cases)
    ck.cov["rows_reevaluated"] = nrows
    ck.cov["rule"] = ("typed random raw CLVM programs, all (op X Y) over 12 operators x 7 operand shapes, compiled generated programs of every dialect; for each the full CldbRun trace: numbering, final entry vs clvmr, "
                      "every row (Operator, Arguments, Value) re-evaluated with clvmr as (op (q . a1) ...); cldb CLI plain and -t views on source vs -x hex input; non-trivial = programs traced (rows re-evaluated are counted separately)")
    ck.cov["samples"] = [lines[0][:300], {"row": evm[0][2] if evm else None}]
    ck.cov["programs"] = len(cases)
    ck.cov["compiled_programs"] = comp
    ck.cov["traces_validated_against_impl"] = len(cases)
    ck.cov["disagreements_checked"] = len(corr)
    ck.cov["trusted_base"] = ["Coq 8.16.1 kernel", "clvmr run_program", "harness + driver glue", "class predicates: C06's leniency classes, Operator 3 rows (D8)"]
    ck.assumptions = ["cldb_hierarchy (-t) is compared for row content only"]
    for x in direct[:8]:
        ck.violation({"kind": "direct", "failing": x})
    if not direct:
        if not proved:
            ck.violation({"kind": "proof-broken", "broken": ck.proof_failure["broken"], "detail": ck.proof_failure["detail"][-1500:],
                          "searched": "traces of raw and compiled programs: no failing row outside the known classes"}, no_input=True)
        elif corr:
            ck.violation({"kind": "correspondence-broken", "broken": "C12 tie: CldbRun rows vs Step/Cldb.v", "disagreements": corr[:10]}, no_input=True)


def replay(path):
    d = json.load(open(path))
    f = d.get("failing", {})
    if "program" in f:
        vlib.build_harness()
        c = vlib.impl(["r_from_clvm\t1\t" + f["program"], "r_from_clvm\t1\t" + f["env"]])
        print(vlib.impl(["cldbrun\t1\t%s\t%s\t1" % (c[0][3:], c[1][3:]), "run\t2\t%s\t%s" % (f["program"], f["env"])]))
    return 0
