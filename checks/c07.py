"""C07 - rich s-expression values and CLVM values convert without loss; hashes agree."""
import hashlib
import itertools
import re
import vlib
from vlib import atom, cons

LEVEL = "proof"


def eval_hexp(s):
    toks = re.findall(r"\(|\)|[0-9a-f]+", s)
    st = []
    for t in toks:
        if t == "(":
            st.append("(")
        elif t == ")":
            items = []
            while st[-1] != "(":
                items.append(st.pop())
            st.pop()
            items.reverse()
            tag = items[0]
            if tag == "1":
                data = bytes.fromhex(items[1]) if len(items) > 1 and isinstance(items[1], str) else b""
                st.append(hashlib.sha256(b"\x01" + data).digest())
            else:
                st.append(hashlib.sha256(b"\x02" + items[1] + items[2]).digest())
        else:
            st.append(t)
    return st[0].hex()


def norm_hash(r):
    if r.startswith("HEXP "):
        return "OK " + eval_hexp(r[5:])
    return r


def atoms_for(ck):
    rng = ck.rng
    out = [b""]
    for n in (1, 2):
        for t in itertools.product(range(256), repeat=n):
            out.append(bytes(t))
    alpha = [0x00, 0x01, 0x7f, 0x80, 0xff, 0x22, 0x27, 0x5c, 0x20, 0x28, 0x29, 0x23, 0x3b, 0x2e, 0x30, 0x39, 0x78, 0x41, 0x61, 0x7e, 0x1f, 0x09, 0x0a, 0x0c, 0x0d, 0x0b, 0xfe]
    for t in itertools.product(alpha, repeat=3):
        out.append(bytes(t))
    if ck.tier == "thorough":
        # every 3-byte atom whose first byte is a boundary byte (all 2^24 of them would take hours)
        for first in (0x00, 0x01, 0x7f, 0x80, 0xfe, 0xff):
            for t in itertools.product(range(256), repeat=2):
                out.append(bytes((first,) + t))
    longer = []
    for _ in range(400):
        k = rng.choice(["zero", "sign", "print", "quote", "hash", "rand"])
        if k == "zero":
            b = bytes(rng.randint(1, 3)) + bytes(rng.getrandbits(8) for _ in range(rng.randint(0, 6)))
        elif k == "sign":
            b = bytes([0xff] * rng.randint(1, 3)) + bytes(rng.getrandbits(8) for _ in range(rng.randint(0, 6)))
        elif k == "print":
            b = bytes(rng.randint(32, 126) for _ in range(rng.randint(4, 30)))
        elif k == "quote":
            b = bytes(rng.choice([0x22, 0x27, 0x5c, 0x41, 0x20]) for _ in range(rng.randint(1, 8)))
        elif k == "hash":
            b = bytes(rng.getrandbits(8) for _ in range(32))
        elif k == "kib":
            b = bytes(rng.getrandbits(8) for _ in range(rng.randint(1000, 5000)))
        else:
            b = bytes(rng.getrandbits(8) for _ in range(rng.randint(4, 12)))
        longer.append(b)
    for n in (1024, 1500, 2048) + ((4096, 6000) if ck.tier == "thorough" else ()):
        longer.append(bytes(rng.getrandbits(8) for _ in range(n)))
        longer.append(b"\x00" + bytes(rng.getrandbits(8) for _ in range(n)))
    return out, longer


def rich_leaves(b, rng):
    """rich spellings whose CLVM encoding (fixed mode) is the atom b, or close to it"""
    out = ["a" + b.hex(), "q22x" + b.hex(), "q78x" + b.hex(), "q27x" + b.hex()]
    if b == b"":
        out += ["n", "i0x0"]
    z = int.from_bytes(b, "big", signed=True) if b else 0
    out.append("i" + ("-0x%x" % -z if z < 0 else "0x%x" % z))
    return out


def run(ck):
    proved = ck.proof()
    vlib.global_lock()
    try:
        vlib.build_harness()
        vlib.build_driver()
    finally:
        vlib.global_unlock()
    rng = ck.rng
    short, longer = atoms_for(ck)
    all_atoms = short + longer
    corr = []
    direct = []
    # ---- conversions and hashes on atoms (every short atom) and trees
    vals = [atom(b) for b in all_atoms]
    pool = [atom(b) for b in short[:300] + longer[:60] + [b"\x00", b"\x00\x80", b"\xff\x7f", b"\x80", b"hello", b'a"b', b"a\\b"]]

    def tree(d):
        if d == 0 or rng.random() < 0.3:
            return rng.choice(pool)
        return cons(tree(d - 1), tree(d - 1))
    trees = [tree(rng.randint(1, 6)) for _ in range(300 if ck.tier == "quick" else 3000)]
    vals += trees
    lines = []
    for mode in ("0", "1"):
        lines += ["r_from_clvm\t%s\t%s" % (mode, v) for v in vals]
    lines += ["c_hash\t" + v for v in vals] + ["clvmr_hash\t" + v for v in vals]
    ir = vlib.impl(lines, timeout_line=60)
    mr = [norm_hash(x) for x in vlib.model(lines, timeout_line=60)]
    n = len(vals)
    for l, a, b in zip(lines, ir, mr):
        if a != b:
            corr.append({"op": l.split("\t")[0], "input": l[:200], "impl": a[:200], "model": b[:200]})
    # second stage: back-conversion and rich hash of what the implementation produced
    lines2 = []
    meta2 = []
    for mi, mode in enumerate(("0", "1")):
        for k, v in enumerate(vals):
            r = ir[mi * n + k]
            if r.startswith("OK "):
                lines2.append("r_to_clvm\t%s\t%s" % (mode, r[3:]))
                meta2.append(("to", mode, k))
                lines2.append("r_hash\t%s\t%s" % (mode, r[3:]))
                meta2.append(("hash", mode, k))
            else:
                direct.append({"clause": "conversion from CLVM failed", "mode": mode, "value": v[:200], "impl": r[:200]})
    ir2 = vlib.impl(lines2, timeout_line=60)
    mr2 = [norm_hash(x) for x in vlib.model(lines2, timeout_line=60)]
    for l, a, b in zip(lines2, ir2, mr2):
        if a != b:
            corr.append({"op": l.split("\t")[0], "input": l[:200], "impl": a[:200], "model": b[:200]})
    for (kind, mode, k), l, a in zip(meta2, lines2, ir2):
        v = vals[k]
        chash = ir[2 * n + k]
        khash = ir[3 * n + k]
        if kind == "to" and a != "OK " + v:
            direct.append({"clause": "CLVM -> rich -> CLVM is not the identity", "mode": mode, "value": v[:300], "rich": l.split("\t")[2][:300], "back": a[:300]})
        if kind == "hash" and a != khash:
            direct.append({"clause": "tree hash of the rich form differs from the consensus tree hash", "mode": mode, "value": v[:300], "rich_hash": a, "consensus": khash})
        if kind == "hash" and chash != khash:
            direct.append({"clause": "classic tree hash differs from the consensus tree hash", "value": v[:300], "classic": chash, "consensus": khash})
    # ---- equality / Hash clause, fixed mode: pairs of rich values from reader-like spellings and conversions
    eq_atoms = [b"", b"\x00", b"\x01", b"\x7f", b"\x80", b"\xff", b"\x00\x80", b"\xff\x7f", b"\x00\x00", b"\x00\x01", b"A", b"AB", b'"', b"\\", b"\x00A", b"\xff\xff", b"\x01\x00"]
    eq_atoms += [rng.choice(short) for _ in range(40)] + longer[:10]
    leaves = []
    for b in eq_atoms:
        for r in rich_leaves(b, rng):
            if r == "i0x0":
                continue        # not produced by the reader (make_atom gives Nil) nor by the converter
            leaves.append(r)
    leaves = list(dict.fromkeys(leaves))
    riches = list(leaves)
    for _ in range(150):
        riches.append("(%s %s)" % (rng.choice(leaves), rng.choice(riches)))
    pairs = []
    for a in leaves:
        for b in leaves:
            pairs.append((a, b))
    for _ in range(2000 if ck.tier == "quick" else 20000):
        pairs.append((rng.choice(riches), rng.choice(riches)))
    # plus the Integer 0 spelling against everything nil-like: the model covers it, the Hash clause excludes it
    for b in ("n", "a", "q22x", "i0x0", "q78x00", "i0x1"):
        pairs.append(("i0x0", b))
        pairs.append((b, "i0x0"))
    uniq = list(dict.fromkeys([x for p in pairs for x in p]))
    l3 = ["r_to_clvm\t1\t" + r for r in uniq] + ["r_hashstream\t" + r for r in uniq] + ["r_eq\t%s\t%s" % p for p in pairs]
    ir3 = vlib.impl(l3, timeout_line=60)
    mr3 = vlib.model(l3, timeout_line=60)
    for l, a, b in zip(l3, ir3, mr3):
        if a != b:
            corr.append({"op": l.split("\t")[0], "input": l[:200], "impl": a[:200], "model": b[:200]})
    enc = dict(zip(uniq, ir3[:len(uniq)]))
    hs = dict(zip(uniq, ir3[len(uniq):2 * len(uniq)]))
    for (a, b), r in zip(pairs, ir3[2 * len(uniq):]):
        same = enc[a] == enc[b]
        if r not in ("OK 0", "OK 1"):
            direct.append({"clause": "== crashed", "a": a[:200], "b": b[:200], "impl": r})
            continue
        if (r == "OK 1") != same:
            direct.append({"clause": "== disagrees with byte identity of the CLVM encodings (fixed mode)", "a": a[:200], "b": b[:200], "eq": r, "enc_a": enc[a][:100], "enc_b": enc[b][:100]})
        if r == "OK 1" and "i0x0" not in (a + " " + b).split() and "i0x0" not in re.findall(r"i0x0\b", a + " " + b) and hs[a] != hs[b]:
            direct.append({"clause": "equal values feed different bytes to Hash", "a": a[:200], "b": b[:200], "hash_a": hs[a][:120], "hash_b": hs[b][:120]})
    ck.cov["evaluations"] = len(lines) + len(lines2) + len(l3)
    ck.cov["distinct_nontrivial"] = len(set(vals)) + len(set(pairs))
    ck.cov["rule"] = ("atoms: every byte string of length 0..2 (thorough: also every 3-byte string led by 00 01 7f 80 fe ff) + 27-symbol alphabet^3 + random zero-prefixed/sign-extended/printable/quote/backslash/32-byte/multi-KiB; "
                      "trees over them; both integer modes for conversion and hashes; equality/Hash: all pairs of leaf spellings (Atom, three quote kinds, Integer, Nil) of 67 atoms + random tree pairs, fixed mode")
    ck.cov["samples"] = [lines[300], lines2[5], l3[-1], l3[len(uniq) * 2 + 77]]
    ck.cov["atoms"] = len(all_atoms)
    ck.cov["trees"] = len(trees)
    ck.cov["eq_pairs"] = len(pairs)
    ck.cov["traces_validated_against_impl"] = len(lines) + len(lines2) + len(l3)
    ck.cov["disagreements_checked"] = len(corr)
    ck.cov["trusted_base"] = ["Coq 8.16.1 kernel", "harness + OCaml driver glue (rich notation reader/printer)", "python hashlib SHA-256 instantiating the abstract hash of the model",
                              "clvmr tree_hash_from_stream as the consensus tree hash"]
    ck.assumptions = ["SHA-256 is kept abstract in Coq (H1/H2 constructors): the hash theorems are equalities of hash expressions"]
    for d in direct[:8]:
        ck.violation({"kind": "direct", "failing": d})
    if not direct:
        if not proved:
            ck.violation({"kind": "proof-broken", "broken": ck.proof_failure["broken"], "detail": ck.proof_failure["detail"][-1500:],
                          "searched": "all atoms <=2 bytes, alphabet^3, trees, both modes, equality pairs: no failing input"}, no_input=True)
        elif corr:
            ck.violation({"kind": "correspondence-broken", "broken": "C07 tie: compiler/clvm.rs conversions / sexp.rs equality, Hash / sha256tree vs Rich/Rich.v",
                          "disagreements": corr[:10]}, no_input=True)


def replay(path):
    import json
    print(json.dumps(json.load(open(path)), indent=1)[:3000])
    return 0
