"""C16 - the REPL / partial evaluator only ever returns what the compiled program would."""
import json
import vlib
import srcgen
import lang_matrix as LM
import pemodel
from checks import _lang as L

LEVEL = "proof"

REPL_DIALECTS = ["", "*standard-cl-23*"]


def lit_expr(v):
    """an expression denoting the value v"""
    if isinstance(v, int) and not isinstance(v, bool):
        return str(v)
    if v == ():
        return "()"
    return "(q . %s)" % srcgen.r_lit(v)


def split_args(pat, val):
    """the argument list value against the top-level parameter list -> one literal expression per positional argument"""
    out = []
    for _ in pat[1]:
        if not (isinstance(val, tuple) and val != ()):
            return None
        out.append(lit_expr(val[0]))
        val = val[1]
    while isinstance(val, tuple) and val != ():
        out.append(lit_expr(val[0]))
        val = val[1]
    if val != ():
        return None
    return out


def def_lines(prog, rng):
    """definition lines in a random order that defines before use"""
    defs = []
    for name, kind, e in prog["consts"]:
        # the REPL knows defconstant only (a form body there is quoted data, as in the compiler): enter the value
        v = srcgen.ev(e, {}, {}, {}, {})
        defs.append((name, "(defconstant %s %s)" % (name, lit_expr(v)), set()))
    for name, params, op in prog["macros"]:
        defs.append((name, "(defmacro %s (%s) (qq (%s (unquote %s) (unquote %s))))" % (name, " ".join(params), op, params[0], params[1]), set()))
    known = {d[0] for d in defs}
    for f in prog["funs"]:
        deps = set()
        for _, s in srcgen.subexprs(f["body"]):
            if s[0] in ("call", "mcall"):
                deps.add(s[1])
            if s[0] in ("var", "const") and s[1] in known:
                deps.add(s[1])
        defs.append((f["name"], "(%s %s %s %s)" % ("defun" if f["kind"] == "defun" else "defun-inline", f["name"], srcgen.r_pat(f["params"]), srcgen.r_expr(f["body"])), deps))
        known.add(f["name"])
    out = []
    done = set()
    pending = list(defs)
    while pending:
        ready = [d for d in pending if d[2] <= done]
        if not ready:
            ready = pending[:1]
        d = rng.choice(ready)
        pending.remove(d)
        done.add(d[0])
        out.append(d[1])
    return out


def let_var_in_if(prog):
    """class of D29: a let/assign-bound name is used inside a branch of an if within the scope of the binding"""
    def scan(e):
        for _, s in srcgen.subexprs(e):
            if s[0] == "let":
                names = {n for n, _ in s[2]}
                scope = [s[3]] + [x for _, x in s[2]]
                for part in scope:
                    for _, t in srcgen.subexprs(part):
                        if t[0] == "if" and (srcgen.expr_vars(t[2]) | srcgen.expr_vars(t[3])) & names:
                            return True
        return False
    return scan(prog["body"]) or any(scan(f["body"]) for f in prog["funs"])


def one_line(s):
    return " ".join(s.split())


def run(ck):
    proved = ck.proof()
    recs, wit = L.load(ck)
    vlib.global_lock()
    try:
        vlib.build_driver()
    finally:
        vlib.global_unlock()
    rng = ck.rng
    lines = []
    meta = []
    nmax = 260 if ck.tier == "quick" else 100000
    cnt = 0
    for ri, r in enumerate(recs):
        prog = r["prog"]
        if prog.get("tag", "").startswith(("param", "sum_of")) and ri % 3:
            continue
        if cnt >= nmax:
            break
        cnt += 1
        defs = def_lines(prog, rng)
        pat = srcgen.r_pat(prog["params"])
        body = srcgen.r_expr(prog["body"])
        exprs = []
        kinds = []
        # the main program as a function, called on constant arguments (closed), and as an open expression
        mainf = "(defun MAINFN %s %s)" % (pat, body)
        for k, a in enumerate(r["args"]):
            parts = split_args(prog["params"], a)
            if parts is None:
                continue
            exprs.append("(MAINFN %s)" % " ".join(parts) if parts else "(MAINFN)")
            kinds.append(("closed", k))
        exprs.append("(mod %s %s)" % (pat, body))
        kinds.append(("open", None))
        text = "\n".join(one_line(x) for x in defs + [mainf] + exprs)
        for dname in REPL_DIALECTS:
            lines.append("repl\t%s\t%s" % (text.encode().hex(), dname))
            meta.append((ri, dname, len(defs) + 1, kinds, text))
    res = vlib.impl(lines, timeout_line=120)
    # second stage: compile what the evaluator returned (a constant or a residual) as a program over the same parameters
    cl = []
    cm = []
    stat = {"repl_sessions": len(lines), "definition_rejected": 0, "closed_constant": 0, "closed_residual": 0, "closed_error": 0, "open_residual": 0, "open_constant": 0, "open_error": 0, "session_failed": 0}
    direct = []
    for (ri, dname, ndefs, kinds, text), rr in zip(meta, res):
        if rr is None or not rr.startswith("OK "):
            stat["session_failed"] += 1
            if rr is None or rr.startswith(("PANIC", "ABORT")):
                direct.append({"clause": "the REPL crashed", "session": text, "result": (rr or "")[:200]})
            continue
        outs = rr[3:].split(" || ")
        if len(outs) != ndefs + len(kinds) or any(not o.startswith("V ") for o in outs[:ndefs]):
            stat["definition_rejected"] += 1
            continue
        r = recs[ri]
        pat = srcgen.r_pat(r["prog"]["params"])
        sig = "(include *standard-cl-21*)"       # the residual is re-compiled under cl21 whatever the REPL dialect (cl23+ has D20)
        for (kind, k), o in zip(kinds, outs[ndefs:]):
            if not o.startswith("V "):
                stat[kind + "_error"] += 1
                continue
            out = o[2:]
            isconst = out.startswith("(q") or out in ("()",)
            stat[kind + ("_constant" if isconst else "_residual")] += 1
            params = "()" if kind == "closed" else pat
            src = "(mod %s %s %s)" % (params, sig, out)
            if isconst:
                # a constant is read back as data (no compiler involved): (q . X) -> X
                cl.append("assemble\t%s" % out.encode().hex())
            else:
                cl.append("compile\t1\t\t%s" % src.encode().hex())
            cm.append((ri, dname, kind, k, out, src, text))
    cres = vlib.impl(cl, timeout_line=60)
    runl = []
    rmeta = []
    uncompilable = 0
    for (ri, dname, kind, k, out, src, text), cr in zip(cm, cres):
        if not cr.startswith("OK "):
            uncompilable += 1
            if kind == "closed" and (out.startswith("(q") or out == "()"):
                direct.append({"clause": "a constant returned by the evaluator does not compile back", "returned": out, "compile": cr[:200], "session": text})
            continue
        code = cr[3:].split("\t")[0]
        r = recs[ri]
        for kk in ([k] if kind == "closed" else range(len(r["args"]))):
            runl.append("run\t2\t%s\t%s" % (code, "x" if kind == "closed" else r["args_clvm"][kk]))
            rmeta.append((ri, dname, kind, kk, out, text))
    rres = vlib.impl(runl, timeout_line=60)
    compared = 0
    kf = {k.get("class"): k["id"] for k in ck.open_findings() if k.get("class")}
    for (ri, dname, kind, kk, out, text), rr in zip(rmeta, rres):
        r = recs[ri]
        ref = r["ref"][kk]
        # what the compiled program returns (cl21 build of the shared matrix, which C01 compares with the reference value)
        b = r["builds"].get(("cl21", True)) or {}
        compiled = (b.get("runs") or [None] * 9)[kk] if b.get("compile") == "OK" else None
        want = None
        if ref[0] == "OK":
            want = "OK " + ref[1]
        if compiled is not None and compiled.startswith("OK ") and not b.get("known"):
            if want is not None and compiled != want:
                continue        # C01's business (reported there)
            want = compiled
        if want is None:
            continue            # the program does not return a value for these arguments: nothing is claimed
        compared += 1
        got = LM.norm_run(rr)
        if got != want and "c16.let_var_in_if" in kf and let_var_in_if(r["prog"]):
            ck.known_finding(kf["c16.let_var_in_if"])
            continue
        if got != want:
            direct.append({"clause": "the evaluator's %s differs from what the compiled program returns" % ("constant" if out.startswith("(q") or out == "()" else "residual expression"),
                           "expression": "closed call on constant arguments" if kind == "closed" else "open expression (mod PARAMS body)", "repl_dialect": dname or "(default)",
                           "evaluator_returned": out[:1500], "arguments": r["args_clvm"][kk], "program_returns": want, "returned_expression_gives": (rr or "")[:200], "session": text})
    # ---- hand-written closed expressions with destructuring binding patterns (outside the program generator): the
    # constant the evaluator returns vs the value of the compiled program
    fixed = ["(assign (a b c) (list 1 2 3) (list c b a))", "(assign (a (b c) . d) (list 1 (list 2 3) 4 5) (list d c b a))", "(assign ((a b) c) (list (list 1 2) 3) (+ a (* b 10) (* c 100)))",
             "(assign (a b c d e) (list 1 2 3 4 5) e)", "(assign x 5 (y z) (list x 7) (- z y))"]
    fr = vlib.impl(["repl\t%s\t%s" % (e.encode().hex(), dn) for e in fixed for dn in REPL_DIALECTS], timeout_line=120)
    fc = vlib.impl(["compile\t1\t\t" + ("(mod () (include *standard-cl-23*) %s)" % e).encode().hex() for e in fixed], timeout_line=60)
    fv = vlib.impl(["run\t2\t%s\tx" % c[3:].split("\t")[0] if c.startswith("OK ") else "run\t2\tx\tx" for c in fc])
    fi = 0
    for ei, e in enumerate(fixed):
        for dn in REPL_DIALECTS:
            out = fr[fi]
            fi += 1
            if not (out.startswith("OK V (q") and fc[ei].startswith("OK ") and fv[ei].startswith("OK ")):
                continue
            val = vlib.impl(["assemble\t" + out[5:].encode().hex()])[0]
            got = vlib.impl(["run\t2\t%s\tx" % val[3:]])[0] if val.startswith("OK ") else val
            compared += 1
            if got != fv[ei]:
                direct.append({"clause": "the evaluator's constant differs from what the compiled program returns", "expression": "closed expression with a destructuring assign pattern", "repl_dialect": dn or "(default)",
                               "evaluator_returned": out[5:], "program_returns": fv[ei], "session": e})
    # ---- the tie: Lang/PEval.v (extracted) on the programs that lie in the model's fragment
    closed_repl = {}
    for (ri, dname, kind, kk, out, text), rr in zip(rmeta, rres):
        if kind == "closed" and (out.startswith("(q") or out == "()") and rr and rr.startswith("OK "):
            closed_repl.setdefault((ri, kk), []).append((dname, rr[3:]))
    ml = []
    mm = []
    translated = 0
    for ri, r in enumerate(recs):
        if not any(k[0] == ri for k in closed_repl):
            continue
        t = pemodel.translate(r["prog"])
        if t is None:
            continue
        translated += 1
        for kk, a in enumerate(r["args"]):
            rho = pemodel.rho_of(r["prog"], a)
            if rho is None:
                continue
            rt = pemodel.rho_text(rho)
            ml.append("pe_eval\t400\t%s\t%s\t%s" % (t["funs"], rt, t["body"]))
            mm.append((ri, kk, "eval"))
            ml.append("pe_shrink\t400\t%s\t%s\t%s" % (t["funs"], rt, t["body"]))
            mm.append((ri, kk, "closed"))
            ml.append("pe_shrink\t400\t%s\t%s\t%s" % (t["funs"], ",".join("-" for _ in rho), t["body"]))
            mm.append((ri, kk, "open"))
    mres = vlib.model(ml) if ml else []
    corr = []
    tie = {"programs_in_fragment": translated, "model_values_checked": 0, "closed_constants_compared": 0, "model_limit": 0, "open_residues_constant": 0}
    for (ri, kk, what), mr in zip(mm, mres):
        r = recs[ri]
        ref = r["ref"][kk]
        if mr == "LIMIT":
            tie["model_limit"] += 1
            continue
        if what == "eval":
            tie["model_values_checked"] += 1
            want = ("OK " + ref[1]) if ref[0] == "OK" else "FAIL"
            if mr != want:
                corr.append({"what": "the model's meaning of the program (seval) differs from the reference value", "source": srcgen.render(r["prog"], "cl23")[:1500], "arguments": r["args_clvm"][kk], "model": mr, "reference": want})
        elif what == "closed":
            if mr.startswith("OK [C "):
                mv = mr[6:-1].replace("_", " ")
                for dname, rv in closed_repl.get((ri, kk), []):
                    tie["closed_constants_compared"] += 1
                    if rv != mv and not ("c16.let_var_in_if" in kf and let_var_in_if(r["prog"])):
                        corr.append({"what": "the constant the evaluator returns differs from the model evaluator's constant", "source": srcgen.render(r["prog"], "cl23")[:1500],
                                     "arguments": r["args_clvm"][kk], "repl_dialect": dname or "(default)", "implementation": rv, "model": mv})
        elif mr.startswith("OK [C "):
            tie["open_residues_constant"] += 1
    ck.cov["tie"] = tie
    ck.cov["disagreements_checked"] = len(corr)
    L.fill_cov(ck, recs, compared, "")
    ck.cov["evaluations"] = len(lines) + len(cl) + len(runl)
    ck.cov["distinct_nontrivial"] = compared
    ck.cov["rule"] = ("programs of the shared build matrix: constants, macros and functions entered as REPL lines in a random define-before-use order, the main expression entered as a function; then "
                      "(closed) a call of it on each constant argument set and (open) (mod PARAMS body) with the parameters free; REPL under the default dialect and *standard-cl-23*. "
                      "Whatever the evaluator returns (constant or residual) is compiled as (mod PARAMS result) and run on the arguments; it must equal the value of the compiled program / the reference value "
                      "whenever the program returns a value. Evaluator errors (depth limit etc.) claim nothing")
    ck.cov["outcomes"] = stat
    ck.cov["results_not_compilable"] = uncompilable
    ck.cov["samples"] = [meta[0][4][:900], meta[len(meta) // 2][4][:900]] if meta else ["(none)"]
    ck.cov["traces_validated_against_impl"] = compared
    ck.cov["trusted_base"] = ["Coq 8.16.1 kernel", "reference interpreter lib/srcgen.py", "clvmr 0.16.2 run_program", "harness glue (repl op: Repl::process_line per line)",
                              "the compiler, for turning the evaluator's residual back into a runnable program (C01 decides the compiler)"]
    seen = set()
    for x in direct:
        key = (x["clause"], x.get("expression"))
        if key in seen:
            continue
        seen.add(key)
        if len(seen) > 8:
            break
        ck.violation({"kind": "direct", "failing": x, "occurrences": sum(1 for y in direct if (y["clause"], y.get("expression")) == key)})
    try:
        json.dump(direct, open(vlib.CACHE + "/c16_direct.json", "w"))
    except Exception:
        pass
    if not direct and proved and corr:
        ck.violation({"kind": "correspondence-broken", "broken": "C16 tie: Repl / Evaluator vs Lang/PEval.v", "disagreements": corr[:10]}, no_input=True)
    if not direct and not proved:
        ck.violation({"kind": "proof-broken", "broken": ck.proof_failure["broken"], "detail": ck.proof_failure["detail"][-1500:],
                      "searched": "%d comparisons: no failing input" % compared}, no_input=True)


def replay(path):
    d = json.load(open(path))
    f = d.get("failing", {})
    if "session" in f:
        vlib.build_harness()
        for dn in REPL_DIALECTS:
            print(vlib.impl(["repl\t%s\t%s" % (f["session"].encode().hex(), dn)], timeout_line=120)[0].replace(" || ", "\n"))
    return 0
