"""C11 - every compile entry point produces the same program for the same source."""
import json
import os
import shutil
import subprocess
import tempfile
import vlib
import srcgen
from checks import _lang as L

LEVEL = "proof"


def tool(args, cwd, env=None, timeout=120):
    e = dict(os.environ)
    if env:
        e.update(env)
    try:
        p = subprocess.run([vlib.HARNESS_BIN, "tool"] + args, cwd=cwd, stdout=subprocess.PIPE, stderr=subprocess.PIPE, text=True, env=e, timeout=timeout)
        return p.stdout
    except subprocess.TimeoutExpired:
        return "TIMEOUT"


def run(ck):
    proved = ck.proof()
    recs, wit = L.load(ck)
    rng = ck.rng
    direct = []
    work = tempfile.mkdtemp(prefix="c11-", dir=vlib.CACHE)
    nontrivial = 0
    evaluations = 0
    samples = []
    try:
        inc = os.path.join(work, "inc")
        os.makedirs(inc)
        open(os.path.join(inc, "helper.clib"), "w").write("(\n (defconstant HK 41)\n (defun HF (A) (+ A HK))\n)\n")
        picked = [r for r in recs if r["prog"].get("tag", "").startswith("generated")]
        rng.shuffle(picked)
        picked = picked[:40 if ck.tier == "quick" else 300]
        jobs = []
        for r in picked:
            for d in srcgen.SIGILS:
                b = r["builds"].get((d, True))
                if not b or b["compile"] != "OK" or b["known"]:
                    continue
                with_inc = rng.random() < 0.4
                extra = "(include helper.clib)" if with_inc else ""
                src = srcgen.render(r["prog"], d, extra_forms=extra)
                jobs.append((r, d, src, with_inc))
        # embedded data files found through the search path, holding atoms whose conversion depends on the integer mode
        # (zero-valued non-empty atoms, zero-prefixed numbers): every entry point must carry them identically
        embeds = {"zero.hex": "00", "zeros.hex": "ff00ff820000ff01ff0080", "lead.hex": "ff8200ffff83000001ff8200800180", "txt.bin": "\x00", "data.sexp": "(0x00 0x0000 0 1 0x0001 \"\")"}
        for fn, content in embeds.items():
            open(os.path.join(inc, fn), "w").write(content)
        for d, sig in srcgen.SIGILS.items():
            if not sig:
                continue
            for fn in embeds:
                kind = {"hex": "hex", "bin": "bin", "sexp": "sexp"}[fn.split(".")[1]]
                jobs.append(({"prog": {"tag": "embed"}}, d, "(mod (X) %s (embed-file EMB %s %s) (c EMB X))" % (sig, kind, fn), True))
        # library entry point (text) and its symbol-free CLVM
        lib_lines = ["compile\t1\t%s\t%s" % (inc, j[2].encode().hex()) for j in jobs]
        lib = vlib.impl(lib_lines, timeout_line=90)
        lib0 = vlib.impl(["compile\t0\t%s\t%s" % (inc, j[2].encode().hex()) for j in jobs], timeout_line=90)
        evaluations += 2 * len(jobs)
        to_parse = []
        outs = []
        def do_job(arg):
            k, (r, d, src, with_inc) = arg
            cwd = os.path.join(work, "j%d" % k)
            os.makedirs(cwd)
            srcfile = os.path.join(cwd, "prog.clsp")
            open(srcfile, "w").write(src)
            o_run = tool(["run", "-O", "-i", inc, srcfile], cwd)
            o_run0 = tool(["run", "-i", inc, srcfile], cwd)
            trace = os.path.join(cwd, "trace.txt")
            if d != "classic":
                tool(["cldb", "-O", "-i", inc, srcfile, "()"], cwd, env={"CHIALISP_VERIF_TRACE": trace})
            cldb_prog = None
            if os.path.exists(trace):
                for l in open(trace):
                    if l.startswith("cldb:program\t"):
                        cldb_prog = l.rstrip("\n").split("\t", 1)[1]
            trace0 = os.path.join(cwd, "trace0.txt")
            if d != "classic":
                tool(["cldb", "-i", inc, srcfile, "()"], cwd, env={"CHIALISP_VERIF_TRACE": trace0})
            cldb_prog0 = None
            if os.path.exists(trace0):
                for l in open(trace0):
                    if l.startswith("cldb:program\t"):
                        cldb_prog0 = l.rstrip("\n").split("\t", 1)[1]
            # file-to-file
            outfile = os.path.join(cwd, "prog.hex")
            subprocess.run([vlib.HARNESS_BIN, "atomic", "compile", srcfile, outfile, srcfile, inc], cwd=cwd, stdout=subprocess.PIPE, stderr=subprocess.PIPE, text=True)
            f2f = open(outfile).read().strip() if os.path.exists(outfile) else None
            return (o_run, o_run0, cldb_prog, cldb_prog0, f2f)
        import concurrent.futures
        with concurrent.futures.ThreadPoolExecutor(max_workers=max(2, vlib.NPROC - 2)) as ex:
            outs = list(ex.map(do_job, list(enumerate(jobs))))
        evaluations += 6 * len(jobs)
        # parse the printed programs back to CLVM with the reader matching the producer
        plines = []
        pidx = []
        for k, ((r, d, src, with_inc), (o_run, o_run0, cp, cp0, f2f)) in enumerate(zip(jobs, outs)):
            for name, text in (("run-O", o_run), ("run", o_run0), ("cldb-O", cp), ("cldb", cp0)):
                if text is None or text == "":
                    continue
                if d in ("classic", "cl21", "strict21", "cl22", "cl23"):
                    # printed programs of the legacy-integer dialects are read with the classic assembler (what brun / opc
                    # do with them): the modern reader is documented as lossy for zero-prefixed atoms in legacy mode (C09)
                    plines.append("assemble\t" + text.encode().hex())
                else:
                    plines.append("parse_modern\t1\t%s" % text.encode().hex())
                pidx.append((k, name))
            if f2f:
                plines.append("deser\t" + f2f)
                pidx.append((k, "file"))
        pres = vlib.impl(plines, timeout_line=60)
        parsed = {}
        for (k, name), pr in zip(pidx, pres):
            parsed[(k, name)] = pr.rsplit(" ", 1)[0] if name == "file" and pr.startswith("OK ") else pr
        for k, ((r, d, src, with_inc), lr, lr0) in enumerate(zip(jobs, lib, lib0)):
            if not lr.startswith("OK "):
                continue
            libcode = "OK " + lr[3:].split("\t")[0]
            nontrivial += 1
            if k < 2:
                samples.append({"dialect": d, "source": src[:500], "run-O": outs[k][0][:200]})
            for name in ("run-O", "cldb-O", "file"):
                if name == "cldb-O" and d == "classic":
                    continue
                got = parsed.get((k, name))
                if got != libcode:
                    direct.append({"clause": "%s output differs from the library entry point's program" % name, "dialect": d, "source": src,
                                   "library": libcode[:300], name: (got or "(no output)")[:300], "raw": (outs[k][0] if name == "run-O" else "")[:200]})
            if d != "classic" and parsed.get((k, "run")) != parsed.get((k, "cldb")):
                direct.append({"clause": "the debugger (no -O) compiles the source to a different program than the command-line compiler with the same flags", "dialect": d, "source": src,
                               "run": (parsed.get((k, "run")) or "(no output)")[:300], "cldb": (parsed.get((k, "cldb")) or "(no output)")[:300]})
            # the unoptimised text of the legacy-integer dialects prints zero-prefixed atoms lossily (documented, C09): the
            # comparison with the byte-producing entry point is made only for programs without embedded data
            if d != "classic" and lr0.startswith("OK ") and r["prog"].get("tag") != "embed":
                c0 = "OK " + lr0[3:].split("\t")[0]
                for name in ("run", "cldb"):
                    got = parsed.get((k, name))
                    if got != c0:
                        direct.append({"clause": "%s (no -O) differs from the text entry point without optimisation" % name, "dialect": d, "source": src,
                                       "text_entry": c0[:300], name: (got or "(no output)")[:300]})
    finally:
        shutil.rmtree(work, ignore_errors=True)
    ck.cov["evaluations"] = evaluations
    ck.cov["distinct_nontrivial"] = nontrivial
    ck.cov["rule"] = ("generated programs (C01 generator) in every dialect incl. classic, 40% with an include found through the search path: library text entry (compile_clvm_text, always optimising) vs `run -O` output re-read "
                      "(modern reader for sigil programs, assembler for classic), vs file-to-file compile_clvm, vs the program cldb -O compiled (hook); and the no -O variants of run / cldb vs the text entry without optimisation; "
                      "non-trivial = programs whose library build succeeds")
    ck.cov["samples"] = samples or ["(none)"]
    ck.cov["traces_validated_against_impl"] = nontrivial
    ck.cov["disagreements_checked"] = 0
    ck.cov["trusted_base"] = ["Coq 8.16.1 kernel", "translator/gen_consts.py gen_entry (option expressions and call shapes)", "the cldb program hook (cfg chialisp_verif)", "harness glue"]
    ck.assumptions = ["Python and wasm bindings are not built here: the Rust functions they call (compile_clvm, compile_clvm_text) are what is compared"]
    for x in direct[:8]:
        ck.violation({"kind": "direct", "failing": x})
    if not direct and not proved:
        ck.violation({"kind": "proof-broken", "broken": ck.proof_failure["broken"], "detail": ck.proof_failure["detail"][-1500:],
                      "searched": "entry-point outputs compared on generated programs in every dialect: no differing output"}, no_input=True)


def replay(path):
    print(json.dumps(json.load(open(path)), indent=1)[:3000])
    return 0
