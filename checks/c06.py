"""C06 - the built-in stepping evaluator agrees with the consensus CLVM evaluator."""
import json
import vlib
import clvmgen as G
from vlib import atom, cons, lst, int_atom

LEVEL = "proof"

PRIM_NAMES = None


def prim_names():
    global PRIM_NAMES
    if PRIM_NAMES is None:
        t = json.loads(vlib.impl(["tables"])[0])
        PRIM_NAMES = {n.encode() for n, _ in t["prims"]}
    return PRIM_NAMES


def minimal_signed(b):
    if b == b"":
        return True
    z = int.from_bytes(b, "big", signed=True)
    if z == 0:
        return False
    l = (z.bit_length() + 8) // 8
    m = z.to_bytes(l, "big", signed=True)
    while len(m) > 1 and ((m[0] == 0 and m[1] < 0x80) or (m[0] == 0xff and m[1] >= 0x80)):
        m = m[1:]
    return m == b


def features(v):
    """leniency classes present anywhere in a value (program or environment: `a` can run data)"""
    names = prim_names()
    out = set()
    st = [v]
    while st:
        x = st.pop()
        if isinstance(x, tuple):
            h = x[0]
            if isinstance(h, tuple):
                out.add("pair_head")
            else:
                if h in names:
                    out.add("name_as_operator")
                elif len(h) >= 1 and not minimal_signed(h):
                    out.add("noncanonical_opcode")
                elif len(h) >= 1 and int.from_bytes(h, "big", signed=True) < 0:
                    out.add("noncanonical_opcode")
                else:
                    # an integer whose byte spelling is an operator name (e.g. 113 = "q")
                    z = int.from_bytes(h, "big", signed=True) if h else 0
                    if z > 0:
                        bs = z.to_bytes((z.bit_length() + 8) // 8, "big", signed=True)
                        if bs in names:
                            out.add("name_as_operator")
            st.append(x[0])
            st.append(x[1])
    return out


def respell(v, how, rng):
    """rich notation of a CLVM value with a chosen atom spelling"""
    def leaf(b):
        if b == b"":
            return "n" if how != "hex" else rng.choice(["n", "q78x", "a"])
        if how == "atom":
            return "a" + b.hex()
        if how == "hex":
            return "q78x" + b.hex()
        if how == "string":
            return "q22x" + b.hex()
        if how == "int":
            if minimal_signed(b):
                z = int.from_bytes(b, "big", signed=True)
                return "i" + ("-0x%x" % -z if z < 0 else "0x%x" % z)
            return "q78x" + b.hex()
        raise ValueError(how)
    out = []
    st = [v]
    while st:
        x = st.pop()
        if isinstance(x, str):
            out.append(x)
        elif isinstance(x, tuple):
            out.append("(")
            st.append(")")
            st.append(x[1])
            st.append(" ")
            st.append(x[0])
        else:
            out.append(leaf(x))
    return "".join(out)


def gen(ck):
    rng = ck.rng
    cases = []
    env3 = G.env_tree(3)
    envs = [env3, "x", lst(["x01", "x02", "x03"])]
    alpha = G.small_alphabet()
    maxleaves = 3 if ck.tier == "quick" else 4
    for n in range(1, maxleaves + 1):
        for t in G.all_trees(alpha, n):
            cases.append((t, envs[:2], "exhaustive%d" % n))
    pool = list(G.all_trees(alpha, 2))
    for _ in range(4000 if ck.tier == "quick" else 0):
        t = cons(rng.choice(pool), rng.choice(pool)) if rng.random() < 0.5 else cons(rng.choice(alpha), cons(rng.choice(pool), rng.choice(alpha + [G.NIL] * 5)))
        cases.append((t, envs[:1], "sampled4"))
    leafs = [G.NIL, "x01", "x02", "x03", "x05", "x06", "x07", G.q("x01"), G.q(G.NIL), G.q(cons("x02", "x03")), lst([G.C, "x02", "x03"]), G.q("x00"), G.q("x0080")]
    for op in (G.A, G.I, G.C, G.F, G.R, G.L, G.EQ, G.ADD, G.SUB, "x12", "x15", "x0d", "x0e", "x20", "x21", "x22", "x14", "x13", "x0a"):
        for x in leafs:
            cases.append((lst([op, x]), envs, "wf1"))
            for y in leafs:
                cases.append((lst([op, x, y]), envs, "wf2"))
    eg = G.ExprGen(rng)
    for _ in range(2500 if ck.tier == "quick" else 40000):
        cases.append((eg.expr(3, rng.randint(1, 6)), [env3], "typed"))
    # paths in every byte pattern
    for pb in G.path_bytes_variants(rng):
        p = int.from_bytes(pb, "big")
        es = [G.env_for_path(p)] if p >= 1 else [env3]
        cases.append((atom(pb), es, "path"))
        cases.append((lst([G.C, atom(pb), G.q("x01")]), es, "path"))
    # other operators through the runner (both evaluators share them; arity / error agreement)
    for op in ("x0b", "x0c", "x16", "x17", "x18", "x19", "x1a", "x1b", "x3c", "x3d", "x3e", "x30"):
        for args in ([G.q("x01")], [G.q("x01"), G.q("x02")], [G.q("x0102"), G.q("x01"), G.q("x02")], [], [G.q(cons("x01", "x02"))]):
            cases.append((lst([op] + args), envs[:1], "otherops"))
    # adversarial spellings
    for h in ("x0001", "x0003", "x0010", "x00", "xff", "x71", "x2b", "x61", "x63", "x0071", "x7175", "x696e"):
        for rest in (lst([G.q("x01"), G.q("x02")]), "x05", lst(["x01"])):
            cases.append((cons(h, rest), envs[:2], "adversarial"))
    for opx in (G.C, G.F, G.Q, G.A, G.ADD):
        for operands in (lst(["x01", "x02"]), lst([G.q("x05"), "x01"]), G.NIL):
            cases.append((cons(lst([opx]), operands), envs[:2], "adversarial"))
    # improper argument lists, zero-byte terminators
    for t in ("x00", "x01", "x0000"):
        cases.append((cons(G.C, cons(G.q("x01"), cons(G.q("x02"), t))), envs[:1], "adversarial"))
        cases.append((cons(G.ADD, cons(G.q("x01"), t)), envs[:1], "adversarial"))
    return cases


def norm(r):
    if r.startswith("OK "):
        return r
    if r in ("LIMIT", "TIMEOUT"):
        return "LIMIT"
    if r.startswith(("FAIL", "RAISE", "UNIMPL", "ERR")):
        return "FAIL"
    return r   # PANIC / ABORT stay visible


def run(ck):
    proved = ck.proof()
    vlib.global_lock()
    try:
        vlib.build_harness()
        vlib.build_driver()
    finally:
        vlib.global_unlock()
    rng = ck.rng
    cases = gen(ck)
    lines = []
    meta = []
    conv_in = list(dict.fromkeys([c[0] for c in cases] + [e for c in cases for e in c[1]]))
    conv = dict(zip(conv_in, vlib.impl(["r_from_clvm\t1\t" + v for v in conv_in])))
    for prog, envs, tag in cases:
        pv = vlib.parse_val(prog)
        spellings = {"converted": conv[prog][3:]}
        hows = ["atom", "hex", "int", "string"] if tag in ("exhaustive1", "exhaustive2", "wf1", "path", "adversarial") else [rng.choice(["atom", "hex", "int", "string"])]
        for h in hows:
            spellings[h] = respell(pv, h, rng)
        for e in envs:
            er = conv[e][3:]
            for sp, rp in spellings.items():
                lines.append("step\t1\t%s\t%s" % (rp, er))
                meta.append((prog, e, tag, sp))
    run_in = list(dict.fromkeys("run\t2\t%s\t%s" % (m[0], m[1]) for m in meta))
    cl = dict(zip(run_in, vlib.impl(run_in, timeout_line=60)))
    st = vlib.impl(lines, timeout_line=60)
    # the model stepper (extracted) on the CLVM form of the same cases
    mlines = list(dict.fromkeys("mstep\t%s\t%s" % (m[0], m[1]) for m in meta))
    mres = dict(zip(mlines, vlib.model(mlines, timeout_line=60)))
    mrun = dict(zip(run_in, vlib.model(run_in, timeout_line=60)))
    direct = []
    corr = []
    tags = {}
    classes = {}
    nontrivial = 0
    seen = set()
    for (prog, e, tag, sp), l, s in zip(meta, lines, st):
        c = cl["run\t2\t%s\t%s" % (prog, e)]
        a, b = norm(s), norm(c)
        if a == "LIMIT" or b == "LIMIT":
            continue
        if (prog, e) not in seen:
            seen.add((prog, e))
            if b.startswith("OK "):
                nontrivial += 1
            tags[tag] = tags.get(tag, 0) + 1
        pvv = vlib.parse_val(prog)
        feats = features(pvv)
        if uses_apply(pvv):
            # only `a` can run data taken from the environment
            feats = feats | features(vlib.parse_val(e))
        if a != b:
            kid = None
            for k in ck.open_findings():
                if k.get("class", "").startswith("c06.") and k["class"][4:] in feats:
                    kid = k["id"]
                    break
            if kid:
                ck.known_finding(kid)
                classes[kid] = classes.get(kid, 0) + 1
            else:
                direct.append({"clause": "stepping evaluator and consensus evaluator disagree", "program": prog, "env": e, "spelling": sp, "rich_program": l.split("\t")[2][:300],
                               "stepper": s[:200], "consensus": c[:200], "features": sorted(feats)})
        # correspondence: model stepper vs implementation, on inputs free of the lenient features and in the converted spelling
        if sp == "converted" and not feats and not uses_unmodelled(prog):
            m = mres.get("mstep\t%s\t%s" % (prog, e))
            if m is not None and not m.startswith(("OOF", "BADOP")):
                if norm(m) != a:
                    corr.append({"op": "run (stepper) vs Step/Stepper.v", "program": prog, "env": e, "impl": s[:200], "model": m[:200]})
    tie = []
    for l in run_in:
        a, b = norm(cl[l]), mrun[l]
        if b in ("OOF",) or a == "LIMIT":
            continue
        # operators outside Clvm/Ops.v fail in the model: only compare when the program uses modelled operators
        if norm(b) != a and not uses_unmodelled(l.split("\t")[2]):
            tie.append({"op": "consensus tie: clvmr vs Clvm/Eval.v", "case": l[:300], "clvmr": cl[l][:200], "model": b[:200]})
    ck.cov["evaluations"] = len(lines) + len(run_in)
    ck.cov["distinct_nontrivial"] = nontrivial
    ck.cov["rule"] = ("all trees <=3 leaves (<=4 thorough) over {q,a,i,c,f,r,l,x,=,+,-,nil,paths} x 2 envs; all (op X)/(op X Y) for 19 operators x 13 operand shapes x 3 envs; typed random; "
                      "paths of 1..9 bytes in every bit pattern; other operators through the runner; adversarial spellings; each program in the converted spelling plus Atom / hex / Integer / string spellings; "
                      "non-trivial = distinct (program, env) on which consensus returns a value")
    ck.cov["samples"] = [lines[10], lines[len(lines) // 2], lines[-1][:300]]
    ck.cov["by_generator"] = tags
    ck.cov["known_class_hits"] = classes
    ck.cov["traces_validated_against_impl"] = len([1 for m in meta if m[3] == "converted"]) + len(run_in)
    ck.cov["disagreements_checked"] = len(corr) + len(tie)
    ck.cov["trusted_base"] = ["Coq 8.16.1 kernel", "harness + OCaml driver glue", "clvmr 0.16.2 run_program as the consensus evaluator",
                              "class predicates of the open known findings (checks/c06.py features())"]
    ck.assumptions = ["cost limits and the step limit are outside the comparison", "softfork is not generated"]
    for d in direct[:10]:
        ck.violation({"kind": "direct", "failing": d})
    if not direct:
        if not proved:
            ck.violation({"kind": "proof-broken", "broken": ck.proof_failure["broken"], "detail": ck.proof_failure["detail"][-1500:],
                          "searched": "exhaustive small trees in five spellings, typed random, paths, adversarial: no failing input outside the known classes"}, no_input=True)
        elif corr or tie:
            ck.violation({"kind": "correspondence-broken", "broken": "C06 tie: compiler/clvm.rs stepper vs Step/Stepper.v (or clvmr vs Clvm/Eval.v)",
                          "disagreements": (corr + tie)[:10]}, no_input=True)


def uses_apply(v):
    st = [v]
    while st:
        x = st.pop()
        if isinstance(x, tuple):
            if isinstance(x[0], bytes) and len(x[0]) >= 1 and int.from_bytes(x[0], "big", signed=True) == 2:
                return True
            if x[0] == b"a":
                return True
            st.append(x[0])
            st.append(x[1])
    return False


MODELLED = {b"\x01", b"\x02", b"\x03", b"\x04", b"\x05", b"\x06", b"\x07", b"\x08", b"\x09", b"\x0a", b"\x0d", b"\x0e", b"\x10", b"\x11", b"\x12", b"\x13", b"\x14", b"\x15", b"\x20", b"\x21", b"\x22"}


def uses_unmodelled(prog):
    v = vlib.parse_val(prog)
    st = [v]
    while st:
        x = st.pop()
        if isinstance(x, tuple):
            if isinstance(x[0], bytes) and len(x[0]) >= 1 and x[0] not in MODELLED:
                return True
            st.append(x[0])
            st.append(x[1])
    return False


def replay(path):
    d = json.load(open(path))
    f = d.get("failing", {})
    if "rich_program" in f:
        vlib.build_harness()
        er = vlib.impl(["r_from_clvm\t1\t" + f["env"]])[0][3:]
        print(vlib.impl(["step\t1\t%s\t%s" % (f["rich_program"], er), "run\t2\t%s\t%s" % (f["program"], f["env"])]))
    else:
        print(json.dumps(d, indent=1)[:3000])
    return 0
