"""C02 - optimisation switches and optimising dialects never change results."""
import json
import vlib
import srcgen
from checks import _lang as L
from checks.c01 import replay  # noqa

LEVEL = "proof"


def run(ck):
    proved = ck.proof()
    recs, wit = L.load(ck)
    direct = []
    hits = {}
    nontrivial = 0
    for r in recs:
        zero_lead = L.has_zero_lead_literal(r["prog"])
        for k in range(len(r["args"])):
            vals = {}
            for (d, opt), b in r["builds"].items():
                if d == "classic" or b["compile"] != "OK":
                    continue
                vals[(d, opt)] = b["runs"][k]
            # every returning build returns the reference value
            st, want = r["ref"][k]
            for (d, opt), got in vals.items():
                b = r["builds"][(d, opt)]
                if st == "OK" and got.startswith("OK ") and got != "OK " + want:
                    if b["known"]:
                        hits[b["known"]] = hits.get(b["known"], 0) + 1
                    else:
                        direct.append({"clause": "a build returns a value different from the source's", **L.short(r, d, opt, k)})
            # any two builds of one group that both return agree
            for grp in (L.GROUP_A, L.GROUP_B, (L.GROUP_A + L.GROUP_B) if not zero_lead else []):
                rets = [(key, v) for key, v in vals.items() if key[0] in grp and v.startswith("OK ") and not r["builds"][key]["known"]]
                nontrivial += max(0, len(rets) - 1)
                for (k1, v1), (k2, v2) in zip(rets, rets[1:]):
                    if v1 != v2:
                        direct.append({"clause": "two builds that differ only in optimisation / dialect level return different values",
                                       "build_a": L.short(r, k1[0], k1[1], k), "build_b": L.short(r, k2[0], k2[1], k)})
            # switching -O on never breaks a compiling, value-returning program
            for d in L.MODERN:
                b0 = r["builds"].get((d, False))
                b1 = r["builds"].get((d, True))
                if not b0 or not b1 or b0["compile"] != "OK":
                    continue
                if not b0["runs"][k].startswith("OK "):
                    continue
                bad = None
                if b1["compile"].startswith("TIMEOUT"):
                    continue        # the wall-clock limit of the harness, not a verdict (counted by C01 as skipped)
                if b1["compile"] != "OK":
                    bad = "with optimisation the program no longer compiles: " + b1["compile"][:160]
                elif b1["runs"][k] != b0["runs"][k]:
                    bad = "with optimisation the program returns " + b1["runs"][k][:100]
                if bad:
                    if b1["known"] or b0["known"]:
                        fid = b1["known"] or b0["known"]
                        hits[fid] = hits.get(fid, 0) + 1
                    else:
                        direct.append({"clause": "switching optimisation on breaks a compiling, value-returning program", "what": bad, **L.short(r, d, False, k)})
    L.report_known(ck, wit, hits)
    L.fill_cov(ck, recs, nontrivial,
               "the C01 build matrix (generated + fixed programs x six modern dialects x optimise on/off x 3 argument trees); compared: every returning build vs the reference value, "
               "all pairs of returning builds inside {cl21,strict-cl21,cl22,cl23} and inside {cl23.1,cl24} (across the groups when no zero-leading-byte literal occurs), and -O on vs off per dialect; "
               "non-trivial = compared pairs of returning builds")
    seen = set()
    for x in direct:
        key = json.dumps(x, sort_keys=True)[:300]
        if key in seen:
            continue
        seen.add(key)
        if len(seen) > 8:
            break
        ck.violation({"kind": "direct", "failing": x})
    if not direct and not proved:
        ck.violation({"kind": "proof-broken", "broken": ck.proof_failure["broken"], "detail": ck.proof_failure["detail"][-1500:],
                      "searched": "build-vs-build comparisons: no failing input outside the known classes"}, no_input=True)
