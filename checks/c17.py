"""C17 - an argument reported as unused really cannot influence the result."""
import json
import re
import vlib
import srcgen
import lang_matrix as LM
import pemodel
from checks import _lang as L
from checks import c16 as C16

LEVEL = "proof"


def low(n):
    return n.lower() + "v"


def leaf_names(pat, under_at=False, out=None):
    """[(name, under an @ capture?)] for every name of a pattern"""
    out = [] if out is None else out
    if pat is None:
        return out
    if pat[0] == "n":
        out.append((pat[1], under_at))
    elif pat[0] == "@":
        out.append((pat[1], under_at))
        leaf_names(pat[2], True, out)
    else:
        for p in pat[1]:
            leaf_names(p, under_at, out)
        leaf_names(pat[2], under_at, out)
    return out


def subst(pat, val, name, new):
    """the argument value with the component bound to `name` replaced; None if it cannot be addressed"""
    if pat[0] == "n":
        return new if pat[1] == name else val
    if pat[0] == "@":
        if pat[1] == name:
            return None
        return subst(pat[2], val, name, new)
    items = []
    v = val
    for p in pat[1]:
        if not (isinstance(v, tuple) and v != ()):
            return None
        x = subst(p, v[0], name, new)
        if x is None:
            return None
        items.append(x)
        v = v[1]
    tail = v
    if pat[2] is not None:
        tail = subst(pat[2], v, name, new)
        if tail is None:
            return None
    return srcgen.pylist(items, tail)


def component(pat, val, name):
    """the value bound to `name` by destructuring val against pat (None if absent)"""
    env = {}
    try:
        srcgen.bind(pat, val, env)
    except srcgen.Fail:
        return None
    return env.get(name)


def is_pair(v):
    return isinstance(v, tuple) and v != ()


def lower_source(prog, src):
    names = sorted({n for n, _ in leaf_names(prog["params"])}, key=len, reverse=True)
    for n in names:
        src = re.sub(r"(?<![A-Za-z0-9_$@&.\-])%s(?![A-Za-z0-9_$])" % re.escape(n), low(n), src)
    return src


ALTS = [0, 1, -1, 12345, (7, 8), (), (1, (2, ())), b"\x00\x80"]


def run(ck):
    proved = ck.proof()
    recs, wit = L.load(ck)
    vlib.global_lock()
    try:
        vlib.build_driver()
    finally:
        vlib.global_unlock()
    rng = ck.rng
    lines = []
    meta = []
    nmax = 330 if ck.tier == "quick" else 100000
    for ri, r in enumerate(recs):
        prog = r["prog"]
        b = r["builds"].get(("cl21", True))
        if not b or b.get("compile") != "OK" or b.get("known"):
            continue        # (a build in an open class of C01/C02 is wrong code: nothing can be concluded from running it)
        if prog.get("tag", "").startswith(("param", "sum_of")) and ri % 3:
            continue
        if len(lines) >= nmax:
            break
        src = lower_source(prog, b["src"])
        lines.append("unused\t" + src.encode().hex())
        meta.append((ri, src))
    res = vlib.impl(lines, timeout_line=120)
    runl = []
    rmeta = []
    stat = {"programs": len(lines), "check_errors": 0, "all_used": 0, "parameters_reported": 0, "reported_not_addressable": 0, "parameters_total": 0}
    reported = {}
    for (ri, src), rr in zip(meta, res):
        r = recs[ri]
        prog = r["prog"]
        names = leaf_names(prog["params"])
        stat["parameters_total"] += len(names)
        if rr is None or not rr.startswith("OK "):
            stat["check_errors"] += 1
            continue
        ok, _, msg = rr[3:].partition(" ")
        rep = re.findall(r" - (\S+)", msg)
        reported[ri] = rep
        if not rep:
            stat["all_used"] += 1
            continue
        back = {low(n): (n, ua) for n, ua in names}
        code = r["builds"][("cl21", True)]["code"]
        for ln in rep:
            if ln not in back:
                continue
            n, under_at = back[ln]
            stat["parameters_reported"] += 1
            if under_at:
                stat["reported_not_addressable"] += 1
                continue
            for k, a in enumerate(r["args"]):
                base = r["args_clvm"][k]
                alts = rng.sample(ALTS, 4 if ck.tier == "quick" else len(ALTS))
                for alt in alts:
                    a2 = subst(prog["params"], a, n, alt)
                    if a2 is None:
                        stat["reported_not_addressable"] += 1
                        break
                    runl.append("run\t2\t%s\t%s" % (code, srcgen.to_clvm(a2)))
                    rmeta.append((ri, n, k, srcgen.to_clvm(a2), src, is_pair(component(prog["params"], a, n)) != is_pair(alt)))
    rres = vlib.impl(runl, timeout_line=60)
    direct = []
    compared = 0
    kf = {k.get("class"): k["id"] for k in ck.open_findings() if k.get("class")}
    for (ri, n, k, a2, src, shape_changed), rr in zip(rmeta, rres):
        r = recs[ri]
        b = r["builds"][("cl21", True)]
        base = LM.norm_run(b["runs"][k])
        got = LM.norm_run(rr)
        if "LIMIT" in (base, got):
            continue
        compared += 1
        if base != got and shape_changed and not (base.startswith("OK") and got.startswith("OK")) and "c17.discarded_but_evaluated" in kf:
            ck.known_finding(kf["c17.discarded_but_evaluated"])
            continue
        if base != got and "c16.let_var_in_if" in kf and C16.let_var_in_if(r["prog"]):
            # D29: the evaluator loses let-bound names inside if branches, so uses reached through them are not seen
            ck.known_finding(kf["c16.let_var_in_if"])
            continue
        if base != got:
            direct.append({"clause": "a parameter reported as unused changes the program's behaviour", "parameter": low(n), "source": src,
                           "arguments_1": r["args_clvm"][k], "result_1": base, "arguments_2": a2, "result_2": got,
                           "kind": "value differs" if base.startswith("OK") and got.startswith("OK") else "one run fails, the other returns"})
    # ---- the tie with the model's unused-argument check (flat parameter lists in the model's fragment)
    ml = []
    mm = []
    for ri, rep in reported.items():
        prog = recs[ri]["prog"]
        pat = prog["params"]
        if any(p[0] != "n" for p in pat[1]):
            continue
        # the model does not simplify (f (c a b)) -> a, so with destructuring parameters it keeps more names than the
        # implementation rightly does: the comparison is made on programs whose functions take flat parameter lists
        if any(q[0] != "n" for f in prog["funs"] for q in f["params"][1]):
            continue
        t = pemodel.translate(prog)
        if t is None:
            continue
        ml.append("pe_unused\t400\t%s\t%d\t%s" % (t["funs"], t["nparams"], t["body"]))
        mm.append(ri)
    mres = vlib.model(ml) if ml else []
    corr = []
    tie = {"programs_compared": 0, "model_limit": 0, "model_reports_more": 0, "parameters_compared": 0}
    for ri, mr in zip(mm, mres):
        prog = recs[ri]["prog"]
        pat = prog["params"]
        if not mr.startswith("OK"):
            tie["model_limit"] += 1
            continue
        flat = [p[1] for p in pat[1]] + ([pat[2][1]] if pat[2] is not None else [])
        mu = {low(flat[int(i)]) for i in mr[3:].split(",") if i}
        iu = set(reported[ri])
        tie["programs_compared"] += 1
        tie["parameters_compared"] += len(flat)
        if iu - mu and "c16.let_var_in_if" in kf and C16.let_var_in_if(prog):
            ck.known_finding(kf["c16.let_var_in_if"])      # D29: uses reached through a let-bound name inside an if branch are lost
        elif iu - mu:
            # the implementation reports a parameter that the model evaluator still finds in the residue
            corr.append({"what": "the unused-argument check reports a parameter the model evaluator keeps in its residue", "source": recs[ri]["builds"][("cl21", True)]["src"][:1500],
                         "implementation_reports": sorted(iu), "model_reports": sorted(mu)})
        elif mu - iu:
            tie["model_reports_more"] += 1      # the implementation keeps names of both branches and of failing uses: allowed
    L.fill_cov(ck, recs, compared, "")
    ck.cov["evaluations"] = len(lines) + len(runl) + len(ml)
    ck.cov["distinct_nontrivial"] = compared
    ck.cov["rule"] = ("programs of the shared build matrix with their parameters renamed to lower case (flat, nested, dotted and @ parameter lists; parameters used directly, through functions, "
                      "inline functions, lets, lambdas, under conditions, or not at all); every parameter the check reports is replaced, in each of the matrix's argument sets, by integers, nil, "
                      "pairs and lists, and the compiled program (cl21) must behave identically (same value, or failure in both runs). Tie: the model's check (Lang/PEval.v reported_unused) on the "
                      "flat-parameter programs of the fragment must report every parameter the implementation reports")
    ck.cov["outcomes"] = stat
    ck.cov["tie"] = tie
    ck.cov["samples"] = [meta[0][1][:900], meta[len(meta) // 2][1][:900]] if meta else ["(none)"]
    ck.cov["traces_validated_against_impl"] = tie["programs_compared"]
    ck.cov["disagreements_checked"] = len(corr)
    ck.cov["trusted_base"] = ["Coq 8.16.1 kernel", "extraction (ExtrOcamlBasic) + ocaml/driver.ml", "lib/pemodel.py (translation of generated programs into the model)", "clvmr 0.16.2 run_program",
                              "harness glue (unused op: classic::clvm_tools::debug::check_unused)"]
    try:
        json.dump(direct, open(vlib.CACHE + "/c17_direct.json", "w"))
        json.dump(corr, open(vlib.CACHE + "/c17_corr.json", "w"))
    except Exception:
        pass
    seen = set()
    for x in direct:
        key = (x["kind"],)
        if key in seen:
            continue
        seen.add(key)
        ck.violation({"kind": "direct", "failing": x, "occurrences": sum(1 for y in direct if y["kind"] == x["kind"])})
    if not direct and proved and corr:
        ck.violation({"kind": "correspondence-broken", "broken": "C17 tie: check_parameters_used_compileform vs Lang/PEval.v reported_unused", "disagreements": corr[:10]}, no_input=True)
    if not direct and not proved:
        ck.violation({"kind": "proof-broken", "broken": ck.proof_failure["broken"], "detail": ck.proof_failure["detail"][-1500:],
                      "searched": "%d pairs of runs: no failing input" % compared}, no_input=True)


def replay(path):
    d = json.load(open(path))
    f = d.get("failing", {})
    if "source" in f:
        vlib.build_harness()
        print(vlib.impl(["unused\t" + f["source"].encode().hex()], timeout_line=120))
        c = vlib.impl(["compile\t1\t\t" + f["source"].encode().hex()], timeout_line=120)[0]
        if c.startswith("OK "):
            code = c[3:].split("\t")[0]
            print(vlib.impl(["run\t2\t%s\t%s" % (code, f["arguments_1"]), "run\t2\t%s\t%s" % (code, f["arguments_2"])]))
    return 0
