"""C10 - ill-scoped programs are rejected, never miscompiled, and never loop the compiler."""
import copy
import json
import re
import vlib
import srcgen
from checks import _lang as L

LEVEL = "proof"

STRICT = ["strict21", "cl23", "cl23.1", "cl24"]
UNB = "UNBOUNDZQ"


# ------------------------------------------------------------------ defect injection

def reachable(prog):
    """functions reachable from the main expression through calls the compiler keeps"""
    funs = {f["name"]: f for f in prog["funs"]}
    memo = {}
    seen = []
    todo = [prog["body"]]
    while todo:
        e = todo.pop()
        for p, c, dr in var_positions(e, "x", (), funs, memo):
            if c.startswith("CALL:") and not dr:
                n = c[5:]
                if n in funs and n not in seen:
                    seen.append(n)
                    todo.append(funs[n]["body"])
    return seen


def pat_names(p):
    if p is None:
        return set()
    if p[0] == "n":
        return {p[1]}
    if p[0] == "@":
        return {p[1]} | pat_names(p[2])
    r = set()
    for x in p[1]:
        r |= pat_names(x)
    return r | pat_names(p[2])


def used_names(fname, funs, memo):
    """names at variable positions of the function's body that are not themselves dropped"""
    if fname not in memo:
        memo[fname] = set()         # (no recursion among the matrix's functions)
        f = funs[fname]
        memo[fname] = {get_name(f["body"], p) for p, c, dropped in var_positions(f["body"], "f", (), funs, memo) if not dropped and not c.startswith("CALL:")}
    return memo[fname]


def get_name(body, path):
    x = get_at(body, path)
    return x[1] if isinstance(x, tuple) else x


def var_positions(e, ctx, path=(), funs=None, memo=None, dropped=False):
    """(path, context, dropped) of every variable position; context = innermost enclosing construct of interest;
    dropped = the position lies in an expression the compiler discards without generating code for it: an argument
    of an inline function whose parameter the function does not use, or an unused assign-inline binding"""
    funs = funs or {}
    memo = memo if memo is not None else {}
    k = e[0]
    if k == "var":
        yield path, ctx, dropped
    elif k in ("op", "mcall"):
        for i, a in enumerate(e[2]):
            yield from var_positions(a, ctx if k == "op" else "macro_argument", path + (2, i), funs, memo, dropped)
    elif k == "if":
        for i in (1, 2, 3):
            yield from var_positions(e[i], ctx, path + (i,), funs, memo, dropped)
    elif k == "list":
        for i, a in enumerate(e[1]):
            yield from var_positions(a, ctx, path + (1, i), funs, memo, dropped)
    elif k == "cons":
        yield from var_positions(e[1], ctx, path + (1,), funs, memo, dropped)
        yield from var_positions(e[2], ctx, path + (2,), funs, memo, dropped)
    elif k == "call":
        g = funs.get(e[1])
        inline = g is not None and g["kind"] == "inline"
        yield path, "CALL:" + e[1], dropped

        def feeds(idx):
            items, ptail = g["params"][1], g["params"][2]
            if idx < len(items):
                return pat_names(items[idx])
            return pat_names(ptail)
        for i, a in enumerate(e[2]):
            d = dropped or (inline and not (feeds(i) & used_names(e[1], funs, memo)))
            yield from var_positions(a, ctx, path + (2, i), funs, memo, d)
        if e[3] is not None:
            t = e[3]
            if inline and t[0] == "list":
                for kk, a in enumerate(t[1]):
                    d = dropped or not (feeds(len(e[2]) + kk) & used_names(e[1], funs, memo))
                    yield from var_positions(a, "rest_tail", path + (3, 1, kk), funs, memo, d)
            else:
                d = dropped
                if inline:
                    rest = set()
                    for idx in range(len(e[2]), len(g["params"][1]) + 1):
                        rest |= feeds(idx)
                    d = dropped or not (rest & used_names(e[1], funs, memo))
                yield from var_positions(t, "rest_tail", path + (3,), funs, memo, d)
    elif k == "let":
        body_names = {get_name(e[3], p) for p, c, dd in var_positions(e[3], "x", (), funs, memo) if not dd and not c.startswith("CALL:")}
        for i, (n, x) in enumerate(e[2]):
            d = dropped
            if True:
                # a binding nobody uses: assign-inline substitutes it away ("always"), and the optimising builds fold a let
                # whose body does not depend on it ("opt") - the class of D23; nothing is claimed for such positions
                others = set()
                for j, (n2, x2) in enumerate(e[2]):
                    if j != i:
                        others |= srcgen.expr_vars(x2)
                if not dropped and (n not in body_names and n not in others):
                    d = True      # lets desugar to inline functions (cl21/22) or are folded (cl23+): the binding is discarded
            yield from var_positions(x, e[1] + "_binding", path + (2, i, 1), funs, memo, d)
        yield from var_positions(e[3], e[1] + "_body", path + (3,), funs, memo, dropped)
    elif k == "lambda":
        for i, c in enumerate(e[1]):
            yield path + (1, i), "lambda_capture", dropped
        yield from var_positions(e[3], "lambda_body", path + (3,), funs, memo, dropped)
        for i, a in enumerate(e[4]):
            yield from var_positions(a, ctx, path + (4, i), funs, memo, dropped)


def rename_var(e, old, new):
    if isinstance(e, tuple):
        if len(e) == 2 and e[0] == "var":
            return ("var", new) if e[1] == old else e
        return tuple(rename_var(x, old, new) for x in e)
    if isinstance(e, list):
        return [rename_var(x, old, new) for x in e]
    return e


def get_at(e, path):
    for i in path:
        e = e[i]
    return e


def inject_unbound(prog, rng):
    """yields (category, defective program) with one fresh unbound name at a variable position of reachable code"""
    reach = reachable(prog)
    sites = []
    funs = {f["name"]: f for f in prog["funs"]}
    memo = {}
    for p, c, dr in var_positions(prog["body"], "main_body", (), funs, memo):
        if not c.startswith("CALL:"):
            sites.append((None, p, c, dr))
    for fi, f in enumerate(prog["funs"]):
        if f["name"] in reach:
            for p, c, dr in var_positions(f["body"], "inline_function" if f["kind"] == "inline" else "function", (), funs, memo):
                if not c.startswith("CALL:"):
                    sites.append((fi, p, c, dr))
    out = []
    for fi, p, c, dr in sites:
        q = copy.deepcopy(prog)
        body = q["body"] if fi is None else q["funs"][fi]["body"]
        if c == "lambda_capture":
            lam = get_at(body, p[:-2])
            old = lam[1][p[-1]]
            caps = list(lam[1])
            caps[p[-1]] = UNB
            newlam = ("lambda", caps, lam[2], rename_var(lam[3], old, UNB), lam[4])
            nb = srcgen.replace_at(body, p[:-2], newlam)
        else:
            nb = srcgen.replace_at(body, p, ("var", UNB))
        if fi is None:
            q["body"] = nb
        else:
            q["funs"][fi]["body"] = nb
        out.append((c, q, None, ("dropped_opt" if dr == "opt" else "dropped") if dr else None))
    # macro template (only when the macro is used by reachable code)
    used_macros = set()
    for b in [prog["body"]] + [f["body"] for f in prog["funs"] if f["name"] in reach]:
        for _, s in srcgen.subexprs(b):
            if s[0] == "mcall":
                used_macros.add(s[1])
    for mi, m in enumerate(prog["macros"]):
        if m[0] in used_macros:
            out.append(("macro_template", prog, ("macro", mi), "defmacro_template"))
    return out


def render_defect(prog, d, special):
    if special is None:
        return srcgen.render(prog, d)
    if special[0] == "macro":
        # (defmacro M (A B) (qq (op (unquote A) (unquote B)))) with the unbound name added to the template
        mi = special[1]
        src = srcgen.render(prog, d)
        name, params, op = prog["macros"][mi]
        old = "(defmacro %s (%s) (qq (%s (unquote %s) (unquote %s))))" % (name, " ".join(params), op, params[0], params[1])
        new = "(defmacro %s (%s) (qq (%s (unquote %s) (unquote %s) %s)))" % (name, " ".join(params), op if op != "-" else "+", params[0], params[1], UNB)
        assert old in src
        return src.replace(old, new)
    raise ValueError(special)


def const_arg(p):
    if p[0] == "n":
        return ("int", 1) if p[2] == "I" else ("list", [])
    if p[0] == "@":
        return const_arg(p[2])
    items = [const_arg(x) for x in p[1]]
    if p[2] is None:
        return ("list", items)
    r = const_arg(p[2])
    for it in reversed(items):
        r = ("cons", it, r)
    return r


def var_arg(p, ivars, rng):
    if p[0] == "n":
        if p[2] == "I":
            return ("op", "-", [("var", rng.choice(ivars)), ("int", 1)]) if rng.random() < 0.5 else ("var", rng.choice(ivars))
        return ("list", [("var", rng.choice(ivars))])
    if p[0] == "@":
        return var_arg(p[2], ivars, rng)
    items = [var_arg(x, ivars, rng) for x in p[1]]
    if p[2] is None:
        return ("list", items)
    r = var_arg(p[2], ivars, rng)
    for it in reversed(items):
        r = ("cons", it, r)
    return r


def call_of(f, ivars=None, rng=None):
    """a call of f with constant arguments, or (ivars given) with arguments built from variables in scope"""
    p = f["params"]
    mk = const_arg if not ivars else (lambda x: var_arg(x, ivars, rng))
    if p[0] == "p" and p[2] is None:
        return ("call", f["name"], [mk(x) for x in p[1]], None)
    if p[0] == "p":
        return ("call", f["name"], [mk(x) for x in p[1]], mk(p[2]))
    return None


def wrap_with_call(body, call, rng):
    k = rng.randrange(3)
    if k == 0:
        return ("op", "+", [call, body])
    if k == 1:
        return ("if", ("op", "=", [body, ("int", 12345)]), call, body)
    return ("op", "*", [body, ("op", "+", [("int", 1), call])])


def inject_cycles(prog, rng):
    """back edges among inline functions: synthetic cycles of length 1..4 hung off reachable code and back edges between
    existing inline functions"""
    out = []
    for k in (1, 2, 3, 4):
        q = copy.deepcopy(prog)
        names = ["CYC%d" % i for i in range(k)]
        fs = []
        for i, n in enumerate(names):
            nxt = names[(i + 1) % k]
            pat = ("p", [("n", "CA", "I"), ("n", "CB", "I")], None)
            inner = ("call", nxt, [("op", "-", [("var", "CA"), ("int", 1)]), ("var", "CB")], None)
            resttail = ("call", nxt, [("op", "-", [("var", "CA"), ("int", 1)])], ("list", [("var", "CB")]))
            body = rng.choice([
                ("if", ("var", "CA"), inner, ("var", "CB")),
                ("op", "+", [("var", "CB"), inner]),
                inner,
                # the closing call sits in the &rest tail of a call to another inline function, or is itself given a tail
                ("call", "CYCPASS", [("var", "CA")], inner),
                resttail,
            ])
            fs.append({"name": n, "kind": "inline", "params": pat, "names": [], "body": body, "rtype": "I"})
        fs.append({"name": "CYCPASS", "kind": "inline", "params": ("p", [("n", "PA", "I")], ("n", "PT", "L")), "names": [], "body": ("var", "PA"), "rtype": "I"})
        q["funs"] = q["funs"] + fs
        entry = ("call", names[0], [("int", 3), ("int", 4)], None)
        reach = reachable(prog)
        targets = [None] + [i for i, f in enumerate(prog["funs"]) if f["name"] in reach]
        t = rng.choice(targets)
        if t is None:
            b = q["body"]
            if b[0] in ("list", "cons"):
                q["body"] = ("cons", entry, b)
            else:
                q["body"] = wrap_with_call(b, entry, rng)
        else:
            q["funs"][t]["body"] = wrap_with_call(q["funs"][t]["body"], entry, rng)
        out.append(("synthetic_cycle_%d" % k, q, names, None))
    # back edge between existing reachable inline functions: callee (earlier) calls its (transitive, inline-only) caller
    funs = {f["name"]: f for f in prog["funs"]}
    reach = reachable(prog)
    inl = [f["name"] for f in prog["funs"] if f["kind"] == "inline" and f["name"] in reach]

    def inline_callees(n):
        res = []
        for _, s in srcgen.subexprs(funs[n]["body"]):
            if s[0] == "call" and s[1] in funs and funs[s[1]]["kind"] == "inline":
                res.append(s[1])
        return res
    for a in inl:
        # inline-only paths from a
        dist = {a: 0}
        todo = [a]
        while todo:
            x = todo.pop(0)
            for y in inline_callees(x):
                if y not in dist:
                    dist[y] = dist[x] + 1
                    todo.append(y)
        for b, dd in dist.items():
            if dd + 1 > 4:
                continue
            ivars = [n for n, t in (funs[b].get("names") or []) if t == "I"] or [x for x in sorted(pat_names(funs[b]["params"])) if x[0] in "PNAXQ"]
            for variable in (False, True):
                if variable and not ivars:
                    continue
                c = call_of(funs[a], ivars if variable else None, rng)
                if c is None:
                    continue
                q = copy.deepcopy(prog)
                for f in q["funs"]:
                    if f["name"] == b:
                        f["body"] = wrap_with_call(f["body"], c, rng)
                out.append(("back_edge_len_%d_%s_args" % (dd + 1, "variable" if variable else "constant"), q, sorted(dist), None if variable else "const_recursion"))
    return out


def inject_assign(prog, rng):
    """an assign form with cyclic or duplicate bindings wrapped round the main expression or a function body"""
    out = []
    base = prog["body"]
    use_list = base[0] in ("list", "cons")

    def cyc(k):
        ns = ["ZA%d" % i for i in range(k)]
        b = []
        for i, n in enumerate(ns):
            b.append((n, ("op", "+", [("var", ns[(i + 1) % k]), ("int", i + 1)])))
        if rng.random() < 0.5:
            b.insert(rng.randrange(len(b) + 1), ("ZOK", ("int", 7)))
        return b, ns
    for k in (1, 2, 3, 4):
        b, ns = cyc(k)
        out.append(("assign_cycle_%d" % k, b, ns))
    out.append(("assign_duplicate", [("ZD", ("int", 1)), ("ZE", ("op", "+", [("var", "ZD"), ("int", 1)])), ("ZD", ("int", 3))], ["ZD"]))
    out.append(("assign_duplicate_adjacent", [("ZD", ("int", 1)), ("ZD", ("int", 1))], ["ZD"]))
    res = []
    reach = reachable(prog)
    for cat, binds, ns in out:
        for kind in ("assign", "assign-inline", "assign-lambda"):
            q = copy.deepcopy(prog)
            targets = [None] + [i for i, f in enumerate(prog["funs"]) if f["name"] in reach]
            t = rng.choice(targets)
            if t is None:
                if use_list:
                    q["body"] = ("cons", ("let", kind, binds, ("var", binds[0][0]), False), base)
                else:
                    q["body"] = ("let", kind, binds, ("op", "+", [("var", binds[0][0]), base]), False)
            else:
                fb = q["funs"][t]["body"]
                q["funs"][t]["body"] = ("let", kind, binds, ("op", "+", [("var", binds[0][0]), fb]), False)
            res.append((cat + ":" + kind, q, ns))
    return res


def inject_dup_function(prog, rng):
    out = []
    reach = reachable(prog)
    for fi, f in enumerate(prog["funs"]):
        for kind in ("defun", "inline"):
            q = copy.deepcopy(prog)
            g = copy.deepcopy(f)
            g["kind"] = kind
            if rng.random() < 0.5:
                g["body"] = ("int", 99)
            pos = rng.randrange(len(q["funs"]) + 1)
            q["funs"].insert(pos, g)
            out.append(("duplicate_%s_of_%s%s" % (kind, f["kind"], "" if f["name"] in reach else "_unreachable"), q, [f["name"]], None if f["name"] in reach else "unreachable_dup"))
    return out


# ------------------------------------------------------------------ the toposort / stages tie

def gen_items(rng):
    n = rng.choice([0, 1, 2, 3, 4, 5, 6, 8])
    keys = list(range(rng.choice([3, 6, 10])))
    items = []
    for i in range(n):
        has = rng.sample(keys, rng.randint(0, min(2, len(keys))))
        items.append([[], has])
    provided = sorted({k for _, h in items for k in h})
    for i in range(n):
        r = rng.random()
        if r < 0.25:
            needs = []
        elif r < 0.85 and provided:
            # mostly satisfiable: depend on things provided by lower-numbered or random items
            needs = rng.sample(provided, rng.randint(1, min(3, len(provided))))
            if rng.random() < 0.6:
                needs = [k for k in needs if k not in items[i][1]]
        else:
            needs = rng.sample(keys, rng.randint(1, min(3, len(keys))))
        items[i][0] = needs
    return "|".join("%s;%s" % (",".join(map(str, a)), ",".join(map(str, b))) for a, b in items)


def gen_assign(rng):
    """an assign form over names N0..; returns (source, items text for the model, patterns)"""
    n = rng.randint(1, 7)
    names = ["N%d" % i for i in range(10)]
    free = list(names)
    rng.shuffle(free)
    pats = []
    for i in range(n):
        if rng.random() < 0.25 and len(free) >= 2:
            pats.append([free.pop(), free.pop()])
        elif free:
            pats.append([free.pop()])
    possible = {x for p in pats for x in p}
    order = list(range(len(pats)))
    # a hidden satisfiable order for most cases
    rng.shuffle(order)
    acyclic = rng.random() < 0.8
    bodies = []
    items = []
    for i, p in enumerate(pats):
        earlier = [x for j in order[:order.index(i)] for x in pats[j]]
        pool = earlier if acyclic else sorted(possible)
        refs = rng.sample(pool, rng.randint(0, min(3, len(pool)))) if pool else []
        outer = ["X"] if rng.random() < 0.5 else []
        bodies.append("(+ %s 1)" % " ".join(refs + outer) if len(p) == 1 else "(list %s 2)" % " ".join(refs + outer) if refs or outer else "(list 1 2)")
        items.append((sorted({names.index(r) for r in refs}), sorted(names.index(x) for x in p)))
    src = "(assign %s (+ %s))" % (" ".join("%s %s" % (p[0] if len(p) == 1 else "(%s)" % " ".join(p), b) for p, b in zip(pats, bodies)), " ".join(sorted(possible)) + " 0")
    itxt = "|".join("%s;%s" % (",".join(map(str, a)), ",".join(map(str, b))) for a, b in items)
    return src, itxt, [p[0] if len(p) == 1 else "(%s)" % " ".join(p) for p in pats]


def tie(ck, corr):
    rng = ck.rng
    n = 1500 if ck.tier == "quick" else 30000
    its = [gen_items(rng) for _ in range(n)]
    im = vlib.impl(["toposort\t" + x for x in its])
    mo = vlib.model(["mtoposort\t" + x for x in its])
    stat = {"OK": 0, "DEADLOCK": 0}
    for x, a, b in zip(its, im, mo):
        stat[a.split(" ")[0]] = stat.get(a.split(" ")[0], 0) + 1
        if a.strip() != b.strip():
            corr.append({"what": "util::toposort and Lang/Scope.v toposort differ", "items (needs;has|...)": x, "implementation": a, "model": b})
    na = 600 if ck.tier == "quick" else 8000
    forms = [gen_assign(rng) for _ in range(na)]
    im = vlib.impl(["assign_stages\t" + s.encode().hex() for s, _, _ in forms])
    mo = vlib.model(["mstages\t" + i for _, i, _ in forms])
    multi = 0
    for (s, i, pats), a, b in zip(forms, im, mo):
        if a.startswith("DEADLOCK") or b.startswith("DEADLOCK"):
            stat["DEADLOCK"] += 1
            if a.split(" ")[0] != b.split(" ")[0]:
                corr.append({"what": "assign binding order: deadlock verdicts differ", "form": s, "implementation": a, "model": b})
            continue
        if not a.startswith("OK ") or not b.startswith("OK "):
            corr.append({"what": "assign staging: unexpected result", "form": s, "implementation": a, "model": b})
            continue
        order_i, stages_i = a[3:].split(" # ")
        order_m, stages_m = b[3:].split(" # ")
        st_m = "|".join(",".join(pats[int(k)] for k in st.split(",") if k) for st in stages_m.split("|"))
        if "|" in stages_m:
            multi += 1
        if order_i.strip() != order_m.strip() or stages_i.strip() != st_m.strip():
            corr.append({"what": "toposort_assign_bindings / hoist_assign_form and Lang/Scope.v differ", "form": s, "implementation": a, "model": b, "model_stages_as_patterns": st_m})
    ck.cov["tie"] = {"toposort_item_sets": n, "assign_forms": na, "assign_forms_with_several_stages": multi, "outcomes": stat}
    return n + na


# ------------------------------------------------------------------ run

LOCRE = re.compile(r"^(.+?)\((\d+)\):(\d+)")


def LM_norm(r):
    import lang_matrix
    return lang_matrix.norm_run(r)


def located_at(msg, src, ns):
    """the error is located exactly at an occurrence of the offending identifier (or at the form it heads)"""
    m = LOCRE.match(msg)
    if not m or m.group(1) != "*verif*":
        return False
    ln, col = int(m.group(2)), int(m.group(3))
    lines = src.split("\n")
    if not (1 <= ln <= len(lines)):
        return False
    rest = lines[ln - 1][col - 1:]
    return any(rest.startswith(n) or rest.startswith("(" + n) for n in ns if re.match(r"^\(?%s(?![A-Za-z0-9_])" % re.escape(n), rest))

def run(ck):
    proved = ck.proof()
    recs, wit = L.load(ck)
    vlib.global_lock()
    try:
        vlib.build_driver()
    finally:
        vlib.global_unlock()
    rng = ck.rng
    corr = []
    ntie = tie(ck, corr)
    lines = []
    meta = []
    cats = {}
    per_prog = 3 if ck.tier == "quick" else 10
    for ri, r in enumerate(recs):
        prog = r["prog"]
        if prog.get("tag", "").startswith(("param", "sum_of")) and ri % 4:
            continue
        if ck.tier == "quick" and prog.get("tag", "").startswith("generated") and ri % 2:
            continue
        cases = []
        ub = inject_unbound(prog, rng)
        rng.shuffle(ub)
        # prefer rare contexts
        ub.sort(key=lambda x: cats.get("unbound:" + x[0], 0))
        for c, q, sp, tag in ub[:per_prog]:
            cats["unbound:" + c] = cats.get("unbound:" + c, 0) + 1
            cases.append(("unbound", c, q, sp, [UNB], STRICT, tag))
        dups = inject_dup_function(prog, rng)
        rng.shuffle(dups)
        for c, q, ns, tag in dups[:2 if ck.tier == "quick" else 6]:
            cases.append(("duplicate_function", c, q, None, ns, L.MODERN, tag))
        cyc = inject_cycles(prog, rng)
        rng.shuffle(cyc)
        for c, q, ns, tag in cyc[:3 if ck.tier == "quick" else 10]:
            cases.append(("inline_cycle", c, q, None, ns, L.MODERN, tag))
        asg = inject_assign(prog, rng)
        rng.shuffle(asg)
        for c, q, ns in asg[:2 if ck.tier == "quick" else 8]:
            cases.append(("assign", c, q, None, ns, L.MODERN, None))
        for kind, c, q, sp, ns, dialects, tag in cases:
            ds = [d for d in dialects if srcgen.renderable(q, d) and srcgen.renderable(prog, d)]
            # the twin must compile: take the matrix's verdict for the defect-free program
            ds = [d for d in ds if r["builds"].get((d, True), {}).get("compile") == "OK" and r["builds"].get((d, False), {}).get("compile") == "OK"]
            # builds that already fall into an open finding of C01/C02 (wrong code for the defect-free twin) are not used
            ds = [d for d in ds if not r["builds"][(d, True)].get("known") or d == "strict21"]
            if not ds:
                continue
            if ck.tier == "quick":
                ds = rng.sample(ds, min(2, len(ds)))
            for d in ds:
                try:
                    src = render_defect(q, d, sp)
                except AssertionError:
                    continue
                for opt in ((True, False) if ck.tier != "quick" else (rng.random() < 0.5,)):
                    if r["builds"][(d, opt)].get("known"):
                        continue        # e.g. strict-cl21 with optimisation (D10): the stock macros themselves miscompile
                    lines.append("compile\t%s\t\t%s" % ("1" if opt else "0", src.encode().hex()))
                    meta.append((ri, kind, c, d, opt, src, ns, tag, q if kind == "inline_cycle" else None))
                    if kind != "unbound":
                        cats[kind + ":" + c] = cats.get(kind + ":" + c, 0) + 1
    res = vlib.impl(lines, timeout_line=60)
    direct = []
    msgs = {}
    kf = {k.get("class"): k["id"] for k in ck.open_findings() if k.get("class")}
    accepted_cycles = []
    for (ri, kind, c, d, opt, src, ns, tag, q), rr in zip(meta, res):
        x = {"defect": kind, "where": c, "dialect": d, "optimize": opt, "source": src, "twin_compiles": True, "result": (rr or "")[:300]}
        if (rr is None or rr.startswith(("TIMEOUT", "ABORT"))) and kind == "inline_cycle" and d in ("cl23", "cl23.1", "cl24") and "c10.const_recursion_diverges" in kf:
            ck.known_finding(kf["c10.const_recursion_diverges"])
            continue
        if rr is None or rr.startswith(("TIMEOUT", "ABORT", "PANIC")):
            direct.append({"clause": "compilation of an ill-scoped program did not terminate with an error (%s)" % (rr or "no result")[:40], **x})
            continue
        if rr.startswith("OK "):
            cls = {"dropped": "c10.dropped", "defmacro_template": "c10.defmacro_template", "unreachable_dup": "c10.unreachable_dup"}.get(tag)
            if tag == "dropped_opt" and (opt or d in ("cl23", "cl23.1", "cl24")):
                cls = "c10.dropped"
            if kind == "inline_cycle" and d in ("cl23", "cl23.1", "cl24") and "c10.cl23_recursive_inline" in kf:
                accepted_cycles.append((ri, c, d, opt, src, ns, q, rr[3:].split("\t")[0], x))
                continue
            if cls and cls in kf:
                ck.known_finding(kf[cls])
                continue
            direct.append({"clause": "the compiler emitted code for an ill-scoped program", **x})
            continue
        msg = rr[4:]
        key = kind + ":" + " ".join(w for w in msg.split(": ", 1)[-1].split(" ") if not any(ch.isdigit() for ch in w) and w.upper() != w or w in ("a",))[:60]
        msgs[key] = msgs.get(key, 0) + 1
        if kind in ("unbound", "duplicate_function", "inline_cycle") or c.startswith("assign_duplicate"):
            if not any(n in msg for n in ns) and not located_at(msg, src, ns):
                if tag == "const_recursion" and d in ("cl23", "cl23.1", "cl24") and "c10.cl23_recursive_inline" in kf:
                    ck.known_finding(kf["c10.cl23_recursive_inline"])
                    continue
                if kind == "inline_cycle" and d == "cl22" and "stack limit exceeded" in msg and "c10.cl22_stack_limit" in kf:
                    ck.known_finding(kf["c10.cl22_stack_limit"])
                    continue
                if kind == "duplicate_function" and d == "cl22" and "Don't yet support this call type" in msg and "c10.cl22_stack_limit" in kf:
                    ck.known_finding(kf["c10.cl22_stack_limit"])
                    continue
                if tag == "defmacro_template" and "c10.defmacro_template" in kf:
                    ck.known_finding(kf["c10.defmacro_template"])      # D24: the template's atoms are mangled by the old-style macro path
                    continue
                if tag in ("dropped", "dropped_opt", "unreachable_dup"):
                    continue        # some other error stopped the compilation; nothing is claimed for a discarded expression
                direct.append({"clause": "the error does not name the offending identifier", "expected_one_of": ns[:6], **x})
        else:
            if not ("deadlock" in msg or "assign" in msg or any(n in msg for n in ns)):
                direct.append({"clause": "the error does not name the offending form", **x})
    # recursive inline functions the cl23+ optimiser accepted: the emitted code must behave as the program with the
    # cycle's functions declared defun (the class of the known finding); anything else is a miscompilation
    if accepted_cycles:
        tl = []
        for ri, c, d, opt, src, ns, q, code, x in accepted_cycles:
            t = copy.deepcopy(q)
            for f in t["funs"]:
                if f["name"] in ns:
                    f["kind"] = "defun"
            tl.append("compile\t%s\t\t%s" % ("1" if opt else "0", srcgen.render(t, d).encode().hex()))
        tres = vlib.impl(tl, timeout_line=60)
        runl = []
        for (ri, c, d, opt, src, ns, q, code, x), tr in zip(accepted_cycles, tres):
            for a in recs[ri]["args_clvm"]:
                runl.append("run\t2\t%s\t%s" % (code, a))
                runl.append("run\t2\t%s\t%s" % (tr[3:].split("\t")[0] if tr.startswith("OK ") else "x", a))
        rres = vlib.impl(runl, timeout_line=60)
        pos = 0
        for (ri, c, d, opt, src, ns, q, code, x), tr in zip(accepted_cycles, tres):
            same = tr.startswith("OK ")
            for a in recs[ri]["args_clvm"]:
                r1, r2 = LM_norm(rres[pos]), LM_norm(rres[pos + 1])
                pos += 2
                if r1 != r2 and "LIMIT" not in (r1, r2):
                    same = False
            # D26: the ill-scoped program is accepted under cl23+. Whether the emitted code behaves like the program with the
            # cycle's functions declared defun is recorded in the evidence; it usually does, not always (witness2 of D26)
            ck.known_finding(kf["c10.cl23_recursive_inline"])
            ck.cov["accepted_recursive_inline"] = ck.cov.get("accepted_recursive_inline", {"behaves_like_defun": 0, "differs": 0})
            ck.cov["accepted_recursive_inline"]["behaves_like_defun" if same else "differs"] += 1
    ck.cov["evaluations"] = len(lines) + ntie
    ck.cov["distinct_nontrivial"] = len(lines)
    ck.cov["rule"] = ("programs of the shared build matrix (C01 generator + fixed programs) whose defect-free twin compiles in the dialect with and without optimisation, plus exactly one defect: "
                      "a fresh name at a variable position of reachable code (strict-cl21, cl23, cl23.1, cl24); a second defun/defun-inline named like an existing function; "
                      "inline call cycles of length 1..4 (synthetic cycles hung off reachable code, and back edges between existing reachable inline functions); "
                      "assign / assign-inline / assign-lambda with a dependency cycle of length 1..4 or a repeated name (all modern dialects). "
                      "Expected: Err naming the identifier (deadlock for cycles), no timeout. Tie: util::toposort on random item sets and "
                      "toposort_assign_bindings + hoist_assign_form on random assign forms against the extracted Coq model, exact order and stages")
    ck.cov["defect_sites"] = cats
    ck.cov["error_messages"] = dict(sorted(msgs.items(), key=lambda kv: -kv[1])[:25])
    ck.cov["samples"] = [meta[0][5][:600], meta[len(meta) // 2][5][:600]] if meta else ["(none)"]
    ck.cov["traces_validated_against_impl"] = ntie
    ck.cov["disagreements_checked"] = len(corr)
    ck.cov["trusted_base"] = ["Coq 8.16.1 kernel", "extraction (ExtrOcamlBasic) + ocaml/driver.ml", "harness glue (toposort / assign_stages ops, compile op)",
                              "hook: codegen module made public under cfg chialisp_verif", "defect injection in checks/c10.py"]
    ck.cov["explanation"] = ("Proved in Coq for the dependency sort and staging of assign forms (termination, order respects needs, permutation, every stage a valid parallel let); "
                             "rejection of unbound names, duplicate functions and inline cycles lives in unmodelled code generation / inlining and is decided by execution over injected defects.")
    try:
        json.dump(direct, open(vlib.CACHE + "/c10_direct.json", "w"))
    except Exception:
        pass
    seen = set()
    for x in direct:
        key = (x["clause"], x["defect"], x["where"].split(":")[0])
        if key in seen:
            continue
        seen.add(key)
        if len(seen) > 10:
            break
        ck.violation({"kind": "direct", "failing": x, "occurrences": sum(1 for y in direct if (y["clause"], y["defect"], y["where"].split(":")[0]) == key)})
    if not direct:
        if not proved:
            ck.violation({"kind": "proof-broken", "broken": ck.proof_failure["broken"], "detail": ck.proof_failure["detail"][-1500:],
                          "searched": "%d defective programs: no failing input" % len(lines)}, no_input=True)
        elif corr:
            ck.violation({"kind": "correspondence-broken", "broken": "C10 tie: util::toposort / hoist_assign_form vs Lang/Scope.v", "disagreements": corr[:10]}, no_input=True)


def replay(path):
    d = json.load(open(path))
    f = d.get("failing", {})
    if "source" in f:
        vlib.build_harness()
        print(vlib.impl(["compile\t%s\t\t%s" % ("1" if f.get("optimize") else "0", f["source"].encode().hex())], timeout_line=90))
    else:
        print(json.dumps(d, indent=1)[:3000])
    return 0
