"""C08 - binary (de)serialisation is lossless, canonical and rejects malformed input."""
import itertools
import vlib
from vlib import atom, cons

LEVEL = "proof"

CLASS_SIZES = [0, 1, 2, 0x3e, 0x3f, 0x40, 0x41, 0xff, 0x100, 0x1fff, 0x2000, 0x2001, 0xffff, 0x10000,
               0xfffff, 0x100000, 0x100001]
THOROUGH_SIZES = [0x1fffff, 0x200000, 0x2fffff, 0x1000000 + 7]


def size_class(n, first=None):
    if n == 0:
        return "empty"
    if n == 1 and first is not None and first < 0x80:
        return "single<0x80"
    for name, b in (("1-byte prefix", 0x40), ("2-byte prefix", 0x2000), ("3-byte prefix", 0x100000),
                    ("4-byte prefix", 0x8000000), ("5-byte prefix", 0x400000000)):
        if n < b:
            return name
    return "unrepresentable"


def gen_values(ck):
    rng = ck.rng
    vals = []
    for n in CLASS_SIZES + (THOROUGH_SIZES if ck.tier == "thorough" else []):
        for fill in ("zero", "rand", "ff"):
            if n == 0 and fill != "zero":
                continue
            if n > 0x2001 and fill != "rand":
                continue
            if fill == "zero":
                b = bytes(n)
            elif fill == "ff":
                b = b"\xff" * n
            else:
                b = bytes(rng.getrandbits(8) for _ in range(min(n, 4096))) * (n // min(n, 4096) + 1) if n else b""
                b = b[:n]
            vals.append(b)
    for x in (0x00, 0x01, 0x7f, 0x80, 0x81, 0xfe, 0xff):
        vals.append(bytes([x]))
    atoms = [atom(b) for b in vals]
    out = list(atoms)
    small = [a for a in atoms if len(a) < 300]
    # trees

    def tree(depth):
        if depth == 0 or rng.random() < 0.3:
            return rng.choice(small)
        return cons(tree(depth - 1), tree(depth - 1))
    for _ in range(200 if ck.tier == "quick" else 2000):
        out.append(tree(rng.randint(1, 7)))
    # deep right and left spines
    for d in (50, 300):
        t = "x"
        for i in range(d):
            t = cons(atom(bytes([i % 256])), t)
        out.append(t)
        t = "x01"
        for i in range(d):
            t = cons(t, atom(bytes([i % 256])))
        out.append(t)
    # one tree with a big atom inside
    out.append(cons(atom(b"\x01" * 0x2000), cons(atom(b"\x80"), atom(b"\x02" * 0x40))))
    return out


def gen_decoder_inputs(ck, encodings):
    rng = ck.rng
    ins = []
    # exhaustive short strings
    ins.append(b"")
    for n in (1, 2):
        for t in itertools.product(range(256), repeat=n):
            ins.append(bytes(t))
    if ck.tier == "thorough":
        for first in (0x00, 0x7f, 0x80, 0x81, 0xbf, 0xc0, 0xdf, 0xe0, 0xef, 0xf0, 0xf7, 0xf8, 0xfb, 0xfc, 0xfe, 0xff):
            for t in itertools.product(range(256), repeat=2):
                ins.append(bytes((first,) + t))
    if True:
        alpha = [0x00, 0x01, 0x7f, 0x80, 0x81, 0x82, 0xbf, 0xc0, 0xc1, 0xdf, 0xe0, 0xef, 0xf0, 0xf7, 0xf8, 0xfb, 0xfc, 0xfd, 0xfe, 0xff, 0x41, 0x03, 0x40]
        for t in itertools.product(alpha, repeat=3):
            ins.append(bytes(t))
        for t in itertools.product([0x80, 0xc0, 0xe0, 0xf0, 0xf8, 0xfc, 0xfe, 0xff, 0x00, 0x01, 0x02, 0x41], repeat=4):
            ins.append(bytes(t))
    # every prefix class with explicit size bytes, sizes around what follows
    for first, extra in ((0x80, 0), (0xc0, 1), (0xe0, 2), (0xf0, 3), (0xf8, 4), (0xfc, 5), (0xfe, 6)):
        for size in (0, 1, 2, 3, 5, 255, 256, 0x10000, 0x1000000, 0x3ffffffff, 0x400000000, 0xffffffffff):
            sb = size.to_bytes(extra + 1, "big") if size < (1 << (8 * (extra + 1))) else None
            if sb is None:
                continue
            room = {0x80: 6, 0xc0: 5, 0xe0: 4, 0xf0: 3, 0xf8: 2, 0xfc: 1, 0xfe: 0}[first]
            if sb[0] >> room:
                continue
            head = bytes([first | sb[0]]) + sb[1:]
            for payload in (0, 1, 2, 3, 4, 5, 6, 300):
                ins.append(head + b"A" * payload)
                ins.append(b"\xff" + head + b"A" * payload + b"\x01")
    # truncations at every offset, flipped prefix bits, trailing garbage of valid encodings
    for e in encodings:
        if len(e) > 600:
            # only around the prefix and the end
            cuts = list(range(0, 12)) + [len(e) - 2, len(e) - 1]
        else:
            cuts = range(0, len(e))
        for k in cuts:
            ins.append(e[:k])
        ins.append(e + b"\x00")
        ins.append(e + b"\xff")
        for bit in range(8):
            for pos in (0, 1, 2):
                if pos < len(e) and len(e) <= 600:
                    m = bytearray(e)
                    m[pos] ^= 1 << bit
                    ins.append(bytes(m))
    # random mutations
    for _ in range(3000 if ck.tier == "quick" else 30000):
        e = bytearray(rng.choice(encodings)[:400])
        if not e:
            continue
        for _ in range(rng.randint(1, 3)):
            e[rng.randrange(len(e))] = rng.choice([0xff, 0x80, 0xfe, 0xc0, 0xf8, rng.getrandbits(8)])
        ins.append(bytes(e))
    # dedupe, keep order
    seen = set()
    out = []
    for b in ins:
        if b not in seen:
            seen.add(b)
            out.append(b)
    return out


def run(ck):
    proved = ck.proof()
    vlib.global_lock()
    try:
        vlib.build_harness()
        vlib.build_driver()
    finally:
        vlib.global_unlock()
    values = gen_values(ck)
    ser_lines = ["ser\t" + v for v in values]
    cser_lines = ["cser\t" + v for v in values]
    i_ser = vlib.impl(ser_lines, timeout_line=120)
    i_cser = vlib.impl(cser_lines, timeout_line=120)
    m_ser = vlib.model(ser_lines, timeout_line=300)
    m_cser = vlib.model(cser_lines, timeout_line=300)
    corr = []      # model vs implementation / model vs clvmr
    direct = []    # property violated by the implementation
    classes = {}
    encodings = []
    for v, a, b, c, d in zip(values, i_ser, i_cser, m_ser, m_cser):
        if a != c:
            corr.append({"op": "ser", "input": v[:200], "impl": a[:200], "model": c[:200]})
        if b != d:
            corr.append({"op": "cser (consensus tie)", "input": v[:200], "clvmr": b[:200], "model": d[:200]})
        if a != b:
            direct.append({"clause": "encoder output differs from the consensus serialiser", "value": v[:300], "impl": a[:120], "clvmr": b[:120]})
        if a.startswith("OK "):
            encodings.append(bytes.fromhex(a[3:]))
    # round trip on the implementation
    rt_lines = ["deser\t" + e.hex() for e in encodings]
    i_rt = vlib.impl(rt_lines, timeout_line=120)
    for v, e, r in zip([v for v, a in zip(values, i_ser) if a.startswith("OK ")], encodings, i_rt):
        want = "OK %s %d" % (v, len(e))
        pv = vlib.parse_val(v)
        cls = size_class(len(pv), pv[0] if len(pv) else None) if isinstance(pv, bytes) else "tree"
        classes[cls] = classes.get(cls, 0) + 1
        if r != want:
            direct.append({"clause": "deserialise(serialise(v)) != v", "value": v[:300] + ("..." if len(v) > 300 else ""), "value_len_bytes": len(pv) if isinstance(pv, bytes) else None,
                           "encoding_prefix": e[:8].hex(), "impl_result": r[:200]})
    # decoder inputs
    dins = gen_decoder_inputs(ck, [e for e in encodings if len(e) < 70000])
    d_lines = ["deser\t" + b.hex() for b in dins]
    c_lines = ["cdeser\t" + b.hex() for b in dins]
    i_d = vlib.impl(d_lines)
    i_c = vlib.impl(c_lines)
    m_d = vlib.model(d_lines)
    m_c = vlib.model(c_lines)
    n_ok = 0
    for b, a, c, d, e in zip(dins, i_d, i_c, m_d, m_c):
        if a != d:
            corr.append({"op": "deser", "input": b[:64].hex(), "impl": a[:200], "model": d[:200]})
        if c != e:
            corr.append({"op": "cdeser (consensus tie)", "input": b[:64].hex(), "clvmr": c[:200], "model": e[:200]})
        if a.startswith("OK "):
            n_ok += 1
            av = a.split(" ")[1] if not a.startswith("OK (") else a[3:a.rindex(" ")]
            if not c.startswith("OK "):
                direct.append({"clause": "decoder returns a value for bytes the consensus deserialiser rejects", "input": b.hex() if len(b) < 200 else b[:64].hex() + "...", "impl": a[:200], "clvmr": c})
            else:
                cv = c[3:c.rindex(" ")]
                if cv != a[3:a.rindex(" ")]:
                    direct.append({"clause": "decoder returns a different value than the consensus deserialiser", "input": b.hex() if len(b) < 200 else b[:64].hex() + "...", "impl": a[:200], "clvmr": c[:200]})
        elif a != "ERR":
            direct.append({"clause": "decoder crashed / hung", "input": b[:64].hex(), "impl": a})
    ck.cov["evaluations"] = 4 * len(values) + len(encodings) + 4 * len(dins)
    ck.cov["distinct_nontrivial"] = len(set(values)) + len(dins)
    ck.cov["rule"] = ("values: one atom per length class and boundary of the format x fill pattern, random trees, deep spines; "
                      "decoder inputs: every byte string of length <=2 (thorough: also every 3-byte string led by a prefix-class boundary byte), alphabet^3/^4 of prefix bytes, every prefix class with explicit size bytes x payload lengths, "
                      "truncations at every offset / flipped prefix bits / trailing garbage / random mutations of valid encodings; distinct = distinct byte strings")
    ck.cov["samples"] = [values[3][:80], values[-1][:120], dins[700].hex(), dins[-1][:40].hex()]
    ck.cov["value_classes"] = classes
    ck.cov["decoder_inputs"] = len(dins)
    ck.cov["decoder_inputs_accepted"] = n_ok
    ck.cov["traces_validated_against_impl"] = 2 * len(values) + 2 * len(dins)
    ck.cov["disagreements_checked"] = len(corr)
    ck.cov["trusted_base"] = ["Coq 8.16.1 kernel + vm_compute", "translator/gen_consts.py (size classes, markers, limits, get_u32 expression)",
                              "harness + OCaml driver glue", "clvmr 0.16.2 serde as the consensus codec"]
    ck.assumptions = ["atoms >= 2^34 bytes (unrepresentable) are outside the theorems by hypothesis", "allocator limits are not reached"]
    decide(ck, proved, corr, direct)


def decide(ck, proved, corr, direct):
    for d in direct[:8]:
        ck.violation({"kind": "direct", "failing": d})
    if direct:
        return
    if not proved:
        ck.violation({"kind": "proof-broken", "broken": ck.proof_failure["broken"], "detail": ck.proof_failure["detail"][-1500:],
                      "searched": "round trips at every length class, exhaustive short decoder inputs, truncations/mutations: no failing input"}, no_input=True)
    elif corr:
        ck.violation({"kind": "correspondence-broken", "broken": "C08 tie: serialize.rs vs Ser/Serialize.v (or clvmr serde vs the reference codec)",
                      "disagreements": corr[:10]}, no_input=True)


def replay(path):
    import json
    d = json.load(open(path))
    print(json.dumps(d, indent=1)[:3000])
    return 0
