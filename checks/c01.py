"""C01 - compiled modern Chialisp computes what the source means."""
import json
import vlib
import srcgen
from checks import _lang as L

LEVEL = "proof"


def run(ck):
    proved = ck.proof()
    recs, wit = L.load(ck)
    direct = []
    hits = {}
    nontrivial = 0
    for r in recs:
        for (d, opt), b in r["builds"].items():
            if d == "classic":
                continue
            if b["compile"] != "OK":
                if b["compile"].startswith(("PANIC", "ABORT")) and not b["known"]:
                    direct.append({"clause": "the compiler crashed or did not return", **L.short(r, d, opt), "result": b["compile"][:200]})
                continue
            for k, (st, want) in enumerate(r["ref"]):
                if st != "OK":
                    continue
                nontrivial += 1
                got = b["runs"][k]
                if got != "OK " + want:
                    if b["known"]:
                        hits[b["known"]] = hits.get(b["known"], 0) + 1
                    else:
                        direct.append({"clause": "the compiled program does not return the value the source means", **L.short(r, d, opt, k)})
    L.report_known(ck, wit, hits)
    for fid, still in wit.items():
        if not still:
            ck.notes.append("witness of %s no longer fails (fixed?)" % fid)
    L.fill_cov(ck, recs, nontrivial,
               "typed generator over defun / defun-inline / defconstant / defconst / defmacro templates / let / let* / assign(-inline,-lambda) / lambda with captures / &rest tails / (@ name pattern) / "
               "nested and dotted parameter lists / 1..40 parameters / if / list / literals of every kind, plus fixed programs for every parameter position of 15..40-parameter lists and every split of a &rest tail; "
               "each program in six modern dialects x optimise on/off x 3 argument trees; non-trivial = (build, argument) pairs on which the reference interpreter returns a value")
    for x in direct[:8]:
        ck.violation({"kind": "direct", "failing": x})
    if not direct and not proved:
        ck.violation({"kind": "proof-broken", "broken": ck.proof_failure["broken"], "detail": ck.proof_failure["detail"][-1500:],
                      "searched": "generated programs x dialects x optimisation x arguments: no failing input outside the known classes"}, no_input=True)


def replay(path):
    d = json.load(open(path))
    f = d.get("failing", {})
    if "source" in f:
        vlib.build_harness()
        r = vlib.impl(["compile\t%s\t\t%s" % ("1" if f["optimize"] else "0", f["source"].encode().hex())])[0]
        print(r[:300])
        if r.startswith("OK ") and "args" in f:
            print(vlib.impl(["run\t2\t%s\t%s" % (r[3:].split("\t")[0], f["args"])]), "reference", f.get("reference_value"))
    return 0
