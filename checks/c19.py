"""C19 - the compiled output file is replaced atomically."""
import json
import os
import re
import shutil
import subprocess
import tempfile
import threading
import time
import vlib

LEVEL = "proof"

POINTS = ["gentle:entry", "gentle:read_previous", "atomic:entry", "atomic:temp_created", "atomic:written", "atomic:persisted", "gentle:same_content_done"]
# the model's alphabet of one call, as hook events (Sys/AtomicWrite.v: Start, Create, Writing, Ready, Done)
MODEL_TRACES = [
    ["gentle:entry", "atomic:entry", "atomic:temp_created", "atomic:written", "atomic:persisted"],                                   # no readable previous file
    ["gentle:entry", "gentle:read_previous", "atomic:entry", "atomic:temp_created", "atomic:written", "atomic:persisted"],           # different previous content
    ["gentle:entry", "gentle:read_previous", "atomic:entry", "atomic:temp_created", "atomic:written", "atomic:persisted", "gentle:same_content_done"],  # same content
]


def workdir():
    d = tempfile.mkdtemp(prefix="c19-", dir=os.path.join(vlib.CACHE))
    return d


def run_child(args, env=None, timeout=60, strace=None):
    e = dict(os.environ)
    if env:
        e.update(env)
    cmd = [vlib.HARNESS_BIN, "atomic"] + args
    if strace:
        cmd = ["strace", "-f"] + strace + cmd
    p = subprocess.run(cmd, stdout=subprocess.PIPE, stderr=subprocess.PIPE, text=True, env=e, timeout=timeout)
    return p.returncode, p.stdout.strip(), p.stderr


def setup_prev(d, prev, new):
    out = os.path.join(d, "out.hex")
    if os.path.exists(out):
        os.chmod(out, 0o644)
        os.remove(out)
    for f in os.listdir(d):
        if f.startswith(".tmp"):
            os.remove(os.path.join(d, f))
    if prev == "absent":
        return None
    content = {"same": new, "same_ws": new.rstrip("\n") + "  \n\n", "different": "ff02ffff0180" * 50 + "\n"}[prev.replace("_readonly", "")]
    with open(out, "w") as f:
        f.write(content)
    if prev.endswith("_readonly"):
        os.chmod(out, 0o444)
    return content


def read_target(d):
    p = os.path.join(d, "out.hex")
    if not os.path.exists(p):
        return None
    return open(p).read()


def run(ck):
    proved = ck.proof()
    vlib.global_lock()
    try:
        vlib.build_harness()
    finally:
        vlib.global_unlock()
    rng = ck.rng
    direct = []
    corr = []
    evaluations = 0
    distinct = set()
    d = workdir()
    try:
        new = "ff" + "".join("%02x" % rng.getrandbits(8) for _ in range(3000)) + "\n"
        datafile = os.path.join(d, "data.txt")
        open(datafile, "w").write(new)
        out = os.path.join(d, "out.hex")
        prevs = ["absent", "same", "same_ws", "different", "different_readonly", "same_readonly"]
        # ---- 1. hook events form a run of the model's process; aborting at each point leaves an allowed target
        for prev in prevs:
            content = setup_prev(d, prev, new)
            trace = os.path.join(d, "trace.txt")
            if os.path.exists(trace):
                os.remove(trace)
            rc, o, err = run_child(["gentle", "in.clsp", out, datafile], env={"CHIALISP_VERIF_TRACE": trace})
            evaluations += 1
            events = open(trace).read().split() if os.path.exists(trace) else []
            if events not in MODEL_TRACES:
                corr.append({"what": "hook events of one call are not a run of the model's process", "previous": prev, "events": events})
            if o != "OK":
                direct.append({"clause": "the call fails", "previous": prev, "result": o})
            if read_target(d) != new and not (prev.startswith("same") and read_target(d).strip() == new.strip()):
                direct.append({"clause": "after a successful call the output path does not hold the new contents", "previous": prev})
            for pt in events:
                content = setup_prev(d, prev, new)
                rc, o, err = run_child(["gentle", "in.clsp", out, datafile], env={"CHIALISP_VERIF_CRASH_AT": pt})
                evaluations += 1
                distinct.add(("hook", prev, pt))
                t = read_target(d)
                if t not in (content, new):
                    direct.append({"clause": "process death leaves the output path neither old nor complete new", "previous": prev, "crash_point": pt,
                                   "found_len": None if t is None else len(t), "old_len": None if content is None else len(content), "new_len": len(new)})
        # ---- 2. syscall level: alphabet, and a kill at every syscall
        tr = os.path.join(d, "strace.txt")
        sysset = "openat,open,creat,write,pwrite64,writev,rename,renameat,renameat2,link,linkat,unlink,unlinkat,ftruncate,truncate,fchmod,chmod,close,fsync,fdatasync"
        for prev in ("absent", "different", "same"):
            content = setup_prev(d, prev, new)
            rc, o, err = run_child(["gentle", "in.clsp", out, datafile], strace=["-e", "trace=" + sysset, "-o", tr])
            evaluations += 1
            lines = [l for l in open(tr).read().split("\n") if d in l or re.search(r"\b(write|close|ftruncate|fsync)\(", l)]
            rel = []
            tmpfd = None
            tmpname = None
            for l in lines:
                m = re.search(r'openat\(AT_FDCWD, "([^"]+)", ([A-Z_|]+)(?:, \d+)?\)\s*=\s*(-?\d+)', l)
                if m and m.group(1).startswith(d):
                    name, flags, fd = m.group(1), m.group(2), int(m.group(3))
                    if name == out and ("O_WRONLY" in flags or "O_RDWR" in flags or "O_TRUNC" in flags):
                        direct.append({"clause": "the output path itself is opened for writing", "syscall": l.strip()})
                    if name != out and name != datafile and "O_CREAT" in flags:
                        if "O_EXCL" not in flags:
                            corr.append({"what": "temporary file not created exclusively", "syscall": l.strip()})
                        if os.path.dirname(name) != os.path.dirname(out):
                            direct.append({"clause": "temporary file is not in the directory of the output path (rename would not be atomic)", "syscall": l.strip()})
                        tmpfd, tmpname = fd, name
                        rel.append("create")
                    continue
                m = re.search(r"write\((\d+),", l)
                if m and tmpfd is not None and int(m.group(1)) == tmpfd:
                    rel.append("write")
                    continue
                m = re.search(r'rename(?:at2?)?\((?:AT_FDCWD, )?"([^"]+)", (?:AT_FDCWD, )?"([^"]+)"', l)
                if m:
                    if m.group(2) == out:
                        rel.append("rename")
                        if m.group(1) != tmpname:
                            corr.append({"what": "rename source is not the temporary file", "syscall": l.strip()})
                    continue
                if re.search(r"(truncate|unlink)", l) and out in l:
                    direct.append({"clause": "the output path is truncated or unlinked", "syscall": l.strip()})
            shape = "".join({"create": "C", "write": "W", "rename": "R"}[x] for x in rel)
            if not re.fullmatch(r"CW+R", shape):
                corr.append({"what": "syscall sequence on the output directory is not create, write+, rename as in the model", "previous": prev, "shape": shape})
            total = len(open(tr).read().strip().split("\n"))
            # kill at the k-th traced syscall, for every k
            for k in range(1, total + 2):
                content = setup_prev(d, prev, new)
                rc, o, err = run_child(["gentle", "in.clsp", out, datafile],
                                       strace=["-e", "trace=" + sysset, "-e", "inject=%s:signal=KILL:when=%d" % (sysset, k), "-o", "/dev/null"])
                evaluations += 1
                distinct.add(("kill", prev, k))
                t = read_target(d)
                if t not in (content, new):
                    direct.append({"clause": "kill at a syscall leaves the output path neither old nor complete new", "previous": prev, "kill_at_syscall": k,
                                   "found_len": None if t is None else len(t)})
        # ---- 3. "cannot be rewritten": every file operation that could create the temp fails; same content must still succeed
        for prev, want_ok in (("same", True), ("same_ws", True), ("different", False)):
            content = setup_prev(d, prev, new)
            rc, o, err = run_child(["gentle", "in.clsp", out, datafile],
                                   strace=["-e", "trace=openat", "-e", "inject=openat:error=EACCES:when=%d+" % find_temp_open_index(d, out, datafile, new, prev), "-o", "/dev/null"])
            evaluations += 1
            distinct.add(("eacces", prev))
            if want_ok and o != "OK":
                direct.append({"clause": "same contents but the call fails when the file cannot be rewritten", "previous": prev, "result": o})
            if not want_ok and o == "OK":
                direct.append({"clause": "the call reports success although nothing could be written", "previous": prev})
            if read_target(d) != content:
                direct.append({"clause": "a failed rewrite changed the output path", "previous": prev})
        # ---- 4. concurrent writers and a polling reader
        for nw in (1, 2, 4, 8):
            setup_prev(d, "different", new)
            allowed = {read_target(d)}
            datas = []
            for i in range(nw):
                df = os.path.join(d, "data%d.txt" % i)
                txt = ("%02x" % (i + 1)) * rng.randint(20000, 60000) + "\n"
                open(df, "w").write(txt)
                datas.append(df)
                allowed.add(txt)
            stop = {"v": False}
            bad = []

            def reader():
                while not stop["v"]:
                    try:
                        t = open(out).read()
                    except FileNotFoundError:
                        bad.append("absent")
                        continue
                    if t not in allowed:
                        bad.append(len(t))
            th = threading.Thread(target=reader)
            th.start()
            procs = []
            for rep in range(6 if ck.tier == "quick" else 40):
                procs = [subprocess.Popen([vlib.HARNESS_BIN, "atomic", "gentle", "in.clsp", out, datas[i]], stdout=subprocess.PIPE, text=True) for i in range(nw)]
                for p in procs:
                    o, _ = p.communicate()
                    evaluations += 1
                    if o.strip() != "OK":
                        direct.append({"clause": "concurrent call failed", "writers": nw, "result": o.strip()[:200]})
            stop["v"] = True
            th.join()
            distinct.add(("concurrent", nw))
            if bad:
                direct.append({"clause": "a concurrent reader observed contents that are neither old nor a complete new file", "writers": nw, "observed": bad[:5]})
            if read_target(d) not in allowed:
                direct.append({"clause": "final contents are not one of the written files", "writers": nw})
        # ---- 5. file-to-file compilation goes through the same routine
        src = os.path.join(d, "prog.clsp")
        open(src, "w").write("(mod (X) (+ X 1))\n")
        trace = os.path.join(d, "trace2.txt")
        setup_prev(d, "absent", new)
        rc, o, err = run_child(["compile", src, out, datafile], env={"CHIALISP_VERIF_TRACE": trace})
        evaluations += 1
        events = open(trace).read().split() if os.path.exists(trace) else []
        if events not in MODEL_TRACES:
            corr.append({"what": "compile_clvm does not write its output through gentle_overwrite / atomic_write_file", "events": events, "result": o})
        if read_target(d) is None or not read_target(d).startswith("ff10"):
            direct.append({"clause": "file-to-file compilation did not produce the output", "found": read_target(d), "result": o})
    finally:
        shutil.rmtree(d, ignore_errors=True)
    ck.cov["evaluations"] = evaluations
    ck.cov["distinct_nontrivial"] = len(distinct)
    ck.cov["rule"] = ("previous state of the output path {absent, same, same modulo whitespace, different, different read-only, same read-only} x abort at every hook point; "
                      "kill at every traced syscall (open/write/rename/unlink/close/...) for 3 previous states; EACCES on the temporary file's creation; 1,2,4,8 concurrent writers with a polling reader; "
                      "file-to-file compile; distinct = (kind, previous state, point)")
    ck.cov["samples"] = [["hook", "different", "atomic:written"], ["kill", "absent", 5], ["concurrent", 8]]
    ck.cov["traces_validated_against_impl"] = len(prevs) + 3 + 1
    ck.cov["disagreements_checked"] = len(corr)
    ck.cov["trusted_base"] = ["Coq 8.16.1 kernel", "POSIX rename(2) atomicity, page-cache visibility (assumed by the model)", "strace fault injection", "the crash-point hook (cfg chialisp_verif)"]
    ck.assumptions = ["durability across power loss is not part of the property", "the model's single-step rename is the kernel's"]
    for x in direct[:8]:
        ck.violation({"kind": "direct", "failing": x})
    if not direct:
        if not proved:
            ck.violation({"kind": "proof-broken", "broken": ck.proof_failure["broken"], "detail": ck.proof_failure["detail"][-1500:],
                          "searched": "aborts at every hook point, kills at every syscall, concurrent writers: no failing history"}, no_input=True)
        elif corr:
            ck.violation({"kind": "correspondence-broken", "broken": "C19 tie: hook events / syscall sequence vs Sys/AtomicWrite.v", "disagreements": corr[:10]}, no_input=True)


def find_temp_open_index(d, out, datafile, new, prev):
    """index (1-based, among openat calls) of the creation of the temporary file in a clean run"""
    tr = os.path.join(d, "strace_idx.txt")
    setup_prev(d, prev, new)
    run_child(["gentle", "in.clsp", out, datafile], strace=["-e", "trace=openat", "-o", tr])
    k = 0
    for l in open(tr).read().split("\n"):
        if "openat(" in l:
            k += 1
            if "O_CREAT" in l and d in l:
                setup_prev(d, prev, new)
                return k
    setup_prev(d, prev, new)
    return 10 ** 6


def replay(path):
    print(json.dumps(json.load(open(path)), indent=1)[:3000])
    return 0
