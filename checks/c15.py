"""C15 - source locations point at the text they describe."""
import json
import re
import vlib

LEVEL = "proof"

WORDS = ["a", "abc", "X1", "foo-bar", "+", "-", ">s", "-5", "-129", "0", "7", "123456789012345678901234567890", "0x12", "0xdeadbeef", "0x", "mod", "defun", "q",
         "#q", "#a", "#sha256", "#foo", "#", "&rest", "@", "a.b", "x;y"]
STRS = ['"str"', '"a b"', '"it\\"s"', "'sq'", "'a\\'b'", '""', "''", '"multi\nline"', '"(paren)"', '"; not comment"']


class TextGen:
    """builds a text together with the generator's own record of where every token sits"""

    def __init__(self, rng):
        self.rng = rng
        self.out = []
        self.line = 1
        self.col = 1

    def emit(self, s):
        start = (self.line, self.col)
        for ch in s:
            self.out.append(ch)
            if ch == "\n":
                self.line += 1
                self.col = 1
            else:
                self.col += 1
        return start, (self.line, self.col)

    def ws(self, need=False):
        r = self.rng.random()
        if r < 0.5:
            self.emit(" " * self.rng.randint(1, 3))
        elif r < 0.7:
            self.emit("\n" + " " * self.rng.randint(0, 4))
        elif r < 0.8:
            self.emit(" ; a comment ( with \" stuff\n")
        elif need:
            self.emit(" ")

    def node(self, depth):
        r = self.rng.random()
        if depth <= 0 or r < 0.45:
            tok = self.rng.choice(WORDS)
            s, e = self.emit(tok)
            return ("word", tok, s, e)
        if r < 0.6:
            tok = self.rng.choice(STRS)
            s, e = self.emit(tok)
            return ("str", tok, s, e)
        structured = self.rng.random() < 0.08
        if structured:
            s, _ = self.emit("#(")
        else:
            s, _ = self.emit("(")
        kids = []
        n = self.rng.randint(0, 4)
        if structured:
            n = max(n, 1)
        if self.rng.random() < 0.5:
            self.ws()
        for i in range(n):
            kids.append(self.node(depth - 1))
            # a separator is needed after a bareword
            self.ws(need=True)
        tail = None
        if n and not structured and self.rng.random() < 0.12:
            self.emit(". ")
            tail = self.node(depth - 1)
            self.ws(need=True)
        _, e = self.emit(")")
        return ("slist" if structured else "list", kids, tail, s, e)


def gen_text(rng):
    g = TextGen(rng)
    forms = []
    if rng.random() < 0.3:
        g.ws()
    for _ in range(rng.randint(1, 2)):
        forms.append(g.node(rng.randint(1, 4)))
        g.ws(need=True)
    g.emit("\n")
    return "".join(g.out), forms


NODE = re.compile(r"\[([NIQAC]) (\d+) (\d+) (-|\d+) (-|\d+)")


def parse_out(s):
    """parse the harness's bracket notation into nested tuples"""
    pos = [0]

    def node():
        assert s[pos[0]] == "[", s[pos[0]:pos[0] + 20]
        m = NODE.match(s, pos[0])
        kind = m.group(1)
        l, c = int(m.group(2)), int(m.group(3))
        ul = None if m.group(4) == "-" else (int(m.group(4)), int(m.group(5)))
        pos[0] = m.end()
        if kind == "C":
            pos[0] += 1
            a = node()
            b = node()
            assert s[pos[0]] == "]"
            pos[0] += 1
            return ("C", (l, c), ul, a, b)
        j = s.index("]", pos[0])
        payload = s[pos[0]:j].strip()
        pos[0] = j + 1
        return (kind, (l, c), ul, payload)
    out = []
    while pos[0] < len(s):
        if s[pos[0]] == " ":
            pos[0] += 1
            continue
        out.append(node())
    return out


def span_of(n):
    start = n[1]
    end = n[2] if n[2] is not None else (start[0], start[1] + 1)
    return start, end


def slice_text(text, start, end):
    lines = text.split("\n")
    (l1, c1), (l2, c2) = start, end
    if l1 < 1 or l2 > len(lines) + 1 or (l1, c1) > (l2, c2):
        return None
    if l1 == l2:
        if c2 - 1 > len(lines[l1 - 1]) + 1:
            return None
        return lines[l1 - 1][c1 - 1:c2 - 1]
    parts = [lines[l1 - 1][c1 - 1:]]
    for l in range(l1 + 1, l2):
        parts.append(lines[l - 1])
    if l2 - 1 < len(lines):
        parts.append(lines[l2 - 1][:c2 - 1])
    return "\n".join(parts)


def within_text(text, pos):
    lines = text.split("\n")
    l, c = pos
    return 1 <= l <= len(lines) + 1 and 1 <= c <= (len(lines[l - 1]) if l <= len(lines) else 0) + 2


def check_form(text, gen, got, fails, path="top"):
    """compare the generator's record of one form with the reader's node"""
    kind = gen[0]
    if kind in ("word", "str"):
        tok, s, e = gen[1], gen[2], gen[3]
        if got[0] == "C":
            fails.append({"clause": "a leaf token was read as a list", "token": tok, "at": s})
            return
        gs, ge = span_of(got)
        if (gs, ge) != (s, e):
            fails.append({"clause": "a leaf token's location does not address exactly the characters of the token", "token": tok, "token_span": [s, e], "reported": [gs, ge],
                          "slice_of_reported": slice_text(text, gs, ge)})
        return
    kids, tail, s, e = gen[1], gen[2], gen[3], gen[4]
    if kind == "slist":
        # structured lists are rebalanced into a tree: only containment of every node is checked
        st = [got]
        while st:
            x = st.pop()
            gs, ge = span_of(x)
            if x[0] == "C":
                st.append(x[3])
                st.append(x[4])
            if not (s <= gs and ge <= e) and not (x[0] == "N"):
                fails.append({"clause": "a node of a structured list lies outside the text of that list", "list_span": [s, e], "reported": [gs, ge]})
                return
        return
    if not kids:
        # "()" : a Nil leaf spanning the parentheses
        gs, ge = span_of(got)
        if not (s <= gs and ge <= e):
            fails.append({"clause": "the location of () lies outside its text", "list_span": [s, e], "reported": [gs, ge]})
        return
    cur = got
    for i, k in enumerate(kids):
        if cur[0] != "C":
            fails.append({"clause": "list structure differs from the text", "at": s})
            return
        gs, ge = span_of(cur)
        if not (s <= gs and ge <= e):
            fails.append({"clause": "a list's location does not lie within the text of that list", "list_span": [s, e], "reported": [gs, ge], "element": i})
        check_form(text, k, cur[3], fails, path + "/%d" % i)
        cur = cur[4]
    if tail is not None:
        check_form(text, tail, cur, fails, path + "/tail")


def run(ck):
    proved = ck.proof()
    vlib.global_lock()
    try:
        vlib.build_harness()
    finally:
        vlib.global_unlock()
    rng = ck.rng
    cases = []
    for _ in range(1500 if ck.tier == "quick" else 20000):
        cases.append(gen_text(rng))
    lines = ["parse_locs\t" + t.encode().hex() for t, _ in cases]
    plines = ["push_locs\t" + t.encode().hex() for t, _ in cases]
    res = vlib.impl(lines, timeout_line=60)
    pres = vlib.impl(plines, timeout_line=60)
    direct = []
    leaves = 0
    kinds = {}
    for (text, forms), r, pr in zip(cases, res, pres):
        if r != pr:
            direct.append({"clause": "feeding the text one byte at a time differs from parsing it whole", "text": text, "whole": r[:300], "bytewise": pr[:300]})
            continue
        if not r.startswith("OK "):
            direct.append({"clause": "a valid text is rejected", "text": text, "result": r[:300]})
            continue
        try:
            got = parse_out(r[3:])
        except Exception as ex:
            direct.append({"clause": "unreadable harness output", "text": text, "result": r[:300], "exc": str(ex)})
            continue
        # the reader returns only the last form when the text ends in a bareword... texts here end in newline; all forms expected
        if len(got) != len(forms):
            direct.append({"clause": "number of forms read differs from the text", "text": text, "forms_in_text": len(forms), "forms_read": len(got)})
            continue
        fails = []
        for g, x in zip(forms, got):
            check_form(text, g, x, fails)

        def count(n):
            nonlocal leaves
            if n[0] in ("word", "str"):
                leaves += 1
                k = "hash" if n[1].startswith("#") else n[0]
                kinds[k] = kinds.get(k, 0) + 1
            else:
                for k in n[1]:
                    count(k)
                if n[2] is not None:
                    count(n[2])
        for g in forms:
            count(g)
        for f in fails[:2]:
            f["text"] = text
            direct.append(f)
    # error clause: mutations of valid texts; every reported error location lies within the text
    muts = []
    for text, _ in cases[:600 if ck.tier == "quick" else 6000]:
        k = rng.random()
        if k < 0.3 and len(text) > 2:
            cut = rng.randrange(1, len(text))
            muts.append(text[:cut])
        elif k < 0.6:
            i = rng.randrange(0, len(text))
            muts.append(text[:i] + rng.choice([")", "(", '"', ".", "#(", "'"]) + text[i:])
        elif k < 0.8 and len(text) > 2:
            i = rng.randrange(0, len(text) - 1)
            muts.append(text[:i] + text[i + 1:])
        else:
            muts.append(text + rng.choice([")", "(a", '"abc', "(a . )", "(. a)", "#", "#("]))
    mres = vlib.impl(["parse_locs\t" + t.encode().hex() for t in muts], timeout_line=60)
    mpres = vlib.impl(["push_locs\t" + t.encode().hex() for t in muts], timeout_line=60)
    nerr = 0
    for t, r, pr in zip(muts, mres, mpres):
        if r != pr:
            direct.append({"clause": "feeding the text one byte at a time differs from parsing it whole", "text": t, "whole": r[:300], "bytewise": pr[:300]})
        if r.startswith("ERR "):
            nerr += 1
            m = re.match(r"ERR (\d+) (\d+) (-|\d+) (-|\d+) \|", r)
            if not m:
                direct.append({"clause": "reader error without a location", "text": t, "result": r[:200]})
                continue
            s = (int(m.group(1)), int(m.group(2)))
            e = s if m.group(3) == "-" else (int(m.group(3)), int(m.group(4)))
            if not within_text(t, s) or not within_text(t, e):
                direct.append({"clause": "a reader error's location lies outside the text", "text": t, "location": [s, e], "message": r[:200]})
        elif not r.startswith("OK"):
            direct.append({"clause": "the reader crashed", "text": t, "result": r[:200]})
    ck.cov["evaluations"] = 2 * len(cases) + 2 * len(muts)
    ck.cov["distinct_nontrivial"] = leaves
    ck.cov["rule"] = ("tab-free texts built token by token (barewords, negative and large decimals, hex, both quote styles with escapes and multi-line strings, #-prefixed operators and names, #( ) structured lists, "
                      "dotted tails, comments, random whitespace and line breaks) with the generator's own record of every token's and list's span; every leaf's reported span must equal the token's span, every list's span must lie "
                      "within its parentheses, byte-at-a-time must equal whole parsing; plus truncations / insertions / deletions for the error-location clause; non-trivial = leaf tokens checked")
    ck.cov["samples"] = [cases[0][0], cases[1][0], muts[0]]
    ck.cov["leaf_kinds"] = kinds
    ck.cov["error_cases"] = nerr
    ck.cov["traces_validated_against_impl"] = 0
    ck.cov["disagreements_checked"] = 0
    ck.cov["trusted_base"] = ["Coq 8.16.1 kernel", "the text generator's span bookkeeping (checks/c15.py TextGen)", "harness glue"]
    ck.assumptions = ["texts are tab-free (the property's quantifier)"]
    seen = set()
    for x in direct:
        key = (x["clause"], str(x.get("token")))
        if key in seen:
            continue
        seen.add(key)
        if len(seen) > 8:
            break
        ck.violation({"kind": "direct", "failing": x})
    if not direct and not proved:
        ck.violation({"kind": "proof-broken", "broken": ck.proof_failure["broken"], "detail": ck.proof_failure["detail"][-1500:],
                      "searched": "generated texts and mutations: no failing input"}, no_input=True)


def replay(path):
    d = json.load(open(path))
    f = d.get("failing", {})
    if "text" in f:
        vlib.build_harness()
        print(repr(f["text"]))
        print(vlib.impl(["parse_locs\t" + f["text"].encode().hex()]))
    return 0
