"""C13 - symbol tables describe the emitted program."""
import hashlib
import json
import re
import vlib
import srcgen
from checks import _lang as L

LEVEL = "proof"


def treehashes(v, acc):
    """tree hash of every subtree (iterative post-order); returns hash of v"""
    st = [(v, False)]
    memo = {}
    while st:
        x, done = st.pop()
        if isinstance(x, bytes):
            memo[id(x)] = hashlib.sha256(b"\x01" + x).digest()
            acc.setdefault(memo[id(x)].hex(), x)
            continue
        if done:
            h = hashlib.sha256(b"\x02" + memo[id(x[0])] + memo[id(x[1])]).digest()
            memo[id(x)] = h
            acc.setdefault(h.hex(), x)
        else:
            st.append((x, True))
            st.append((x[1], False))
            st.append((x[0], False))
    return memo[id(v)]


def extract_env(code):
    """(a (q . MAIN) (c (q . ENV) 1)) -> ENV or None"""
    try:
        if code[0] == b"\x02":
            args = code[1]
            qmain, rest = args[0], args[1]
            envexp = rest[0]
            if envexp[0] == b"\x04":
                qenv = envexp[1][0]
                if qenv[0] == b"\x01":
                    return qenv[1]
    except Exception:
        pass
    return None


def reachable(prog):
    funs = {f["name"]: f for f in prog["funs"]}
    seen = set()
    todo = [prog["body"]]
    while todo:
        e = todo.pop()
        for _, s in srcgen.subexprs(e):
            if s[0] == "call" and s[1] in funs and s[1] not in seen:
                seen.add(s[1])
                todo.append(funs[s[1]]["body"])
    return seen


def fun_args(f, rng):
    def val(p):
        if p[0] == "n":
            return rng.choice([0, 1, 2, 3, 7, 100, 127, 128, 255, -1, -5, 1000]) if p[2] == "I" else srcgen.pylist([rng.choice([1, 2, 3]) for _ in range(rng.randint(0, 2))])
        if p[0] == "@":
            return val(p[2])
        return srcgen.pylist([val(x) for x in p[1]], val(p[2]) if p[2] is not None else ())
    return val(f["params"])


def norm(s):
    return re.sub(r"\s+", " ", s.strip())


def run(ck):
    proved = ck.proof()
    recs, wit = L.load(ck)
    rng = ck.rng
    direct = []
    runl = []
    runm = []
    nentries = 0
    ncomplete = 0
    for r in recs:
        prog = r["prog"]
        funs = {f["name"]: f for f in prog["funs"]}
        if not funs:
            continue
        reach = reachable(prog)
        for (d, opt), b in r["builds"].items():
            if b.get("compile") != "OK" or b["known"] or d == "classic":
                continue
            try:
                syms = json.loads(b.get("syms") or "{}")
            except Exception:
                direct.append({"clause": "the symbol table is not valid JSON", **L.short(r, d, opt)})
                continue
            code = vlib.parse_val(b["code"])
            hs = {}
            treehashes(code, hs)
            env = extract_env(code)
            named = {}
            for k, name in syms.items():
                if re.fullmatch(r"[0-9a-f]{64}", k) and k in hs:
                    named[k] = name
            for k, name in named.items():
                base = name
                if "_$_" in base or base.startswith(("letbinding", "lambda")):
                    continue            # compiler-synthesised helper: no source-level function to compare with
                nentries += 1
                f = funs.get(base)
                if f is None:
                    direct.append({"clause": "a symbol entry names something that is not a function of the program", "name": name, **L.short(r, d, opt)})
                    continue
                argtxt = syms.get(k + "_arguments")
                if argtxt is not None and norm(argtxt) != norm(srcgen.r_pat(f["params"])):
                    direct.append({"clause": "the argument list recorded for a function is not that function's", "name": name, "recorded": argtxt, "declared": srcgen.r_pat(f["params"]), **L.short(r, d, opt)})
                if env is None:
                    continue
                left_env = syms.get(k + "_left_env", "1") == "1"
                for _ in range(2):
                    av = fun_args(f, rng)
                    try:
                        e2 = {}
                        srcgen.bind(f["params"], av, e2)
                        fm = {x["name"]: x for x in prog["funs"]}
                        mm = {m[0]: m for m in prog["macros"]}
                        cm = {}
                        for cn, ck_, ce in prog["consts"]:
                            cm[cn] = srcgen.ev(ce, {}, fm, mm, cm)
                        want = srcgen.to_clvm(srcgen.ev(f["body"], e2, fm, mm, cm))
                    except srcgen.Fail:
                        continue
                    envv = vlib.cons(vlib.show_val(env), srcgen.to_clvm(av)) if left_env else srcgen.to_clvm(av)
                    runl.append("run\t2\t%s\t%s" % (vlib.show_val(hs[k]), envv))
                    runm.append((r, d, opt, name, want, srcgen.to_clvm(av)))
            # completeness in builds without optimisation
            if not opt and d in ("cl21", "strict21", "cl22"):
                for fname in reach:
                    f = funs[fname]
                    if f["kind"] != "defun":
                        continue
                    # a function whose body is just a parameter or a constant (possibly under lets whose bindings it ignores) is
                    # folded away at its call sites even without -O: no code of it remains to be described
                    core = f["body"]
                    while core[0] == "let":
                        core = core[3]
                    if core[0] in ("var", "const", "int", "hex", "str", "q"):
                        continue
                    ncomplete += 1
                    # functions with byte-identical code share one key (the table is keyed by code hash): the entry then
                    # carries the name of one of them; the fixed same-code programs are covered when any of their names is
                    if fname not in named.values() and not (prog.get("tag", "").startswith("samecode") and set(named.values()) & set(funs)):
                        direct.append({"clause": "a reachable non-inline function has no symbol entry whose code occurs in the program", "name": fname, **L.short(r, d, opt)})
    res = vlib.impl(runl, timeout_line=60)
    for (r, d, opt, name, want, av), got in zip(runm, res):
        if got != "OK " + want:
            direct.append({"clause": "running the code a symbol entry names does not give what calling the function in the source gives", "name": name, "function_args": av, "want": want, "got": got[:200], **L.short(r, d, opt)})
    L.fill_cov(ck, recs, nentries + ncomplete,
               "the C01 build matrix; for every symbol entry whose key is the tree hash of a subtree of the emitted program: the named function must exist, the recorded argument list must be its parameter list, "
               "and the subtree run on (env . args) must return what the reference interpreter returns for the function body; in unoptimised cl21 / strict-cl21 / cl22 builds every reachable non-inline function must have such an entry; "
               "non-trivial = entries checked + completeness obligations", {"entries_checked": nentries, "completeness_obligations": ncomplete, "functions_run": len(runl)})
    seen = set()
    for x in direct:
        key = (x["clause"], x.get("name"), x.get("dialect"))
        if key in seen:
            continue
        seen.add(key)
        if len(seen) > 8:
            break
        ck.violation({"kind": "direct", "failing": x})
    if not direct and not proved:
        ck.violation({"kind": "proof-broken", "broken": ck.proof_failure["broken"], "detail": ck.proof_failure["detail"][-1500:],
                      "searched": "symbol tables of the build matrix: no failing entry"}, no_input=True)


def replay(path):
    print(json.dumps(json.load(open(path)), indent=1)[:3000])
    return 0
