"""C20 - all operator tables agree with each other and with the evaluator."""
import json
import vlib

LEVEL = "proof"


def h(s):
    return s.encode().hex()


def run(ck):
    proved = ck.proof()
    vlib.global_lock()
    try:
        vlib.build_harness()
        try:
            vlib.build_driver()
            driver_ok = True
        except vlib.InfraError as e:
            # the generated tables no longer compile into the model: the tie is broken
            driver_ok = False
            ck.notes.append("model could not be built: %s" % str(e)[-300:])
    finally:
        vlib.global_unlock()

    disagreements = []
    direct_failures = []

    # ---- C (tie): translator output == runtime tables; implemented() == runner behaviour
    rt = json.loads(vlib.impl(["tables"])[0])
    opcodes = [bytes([i]) for i in range(256)] + [bytes.fromhex("13d61f00"), bytes.fromhex("1c3a8f00"),
               b"\x00\x03", b"\x00\x00\x00\x03", bytes.fromhex("13d61f01"), bytes.fromhex("0013d61f00"), b""]
    for row in rt["from2"]:
        b = bytes.fromhex(row[0])
        if b not in opcodes:
            opcodes.append(b)
    probe_lines = ["probe_op\t%d\t%s" % (v, o.hex()) for v in (0, 1, 2) for o in opcodes]
    probes = vlib.impl(probe_lines)
    ck.cov["evaluations"] += len(probe_lines) + 1
    if driver_ok:
        mt = json.loads(vlib.model(["tables"])[0])
        for k in sorted(set(rt) | set(mt)):
            if rt.get(k) != mt.get(k):
                a = rt.get(k)
                b = mt.get(k)
                diff = [x for x in (a if isinstance(a, list) else [a]) if x not in (b if isinstance(b, list) else [b])] + \
                       [x for x in (b if isinstance(b, list) else [b]) if x not in (a if isinstance(a, list) else [a])]
                disagreements.append({"what": "table %s: runtime differs from translated source" % k, "diff": diff[:6]})
        mres = vlib.model(["implemented\t%d\t%s" % (v, o.hex()) for v in (0, 1, 2) for o in opcodes])
        for line, ir, mr in zip(probe_lines, probes, mres):
            impl_has = ir != "UNIMPL"
            if impl_has != (mr == "IMPL"):
                disagreements.append({"what": "implemented(): model %s, runner %s" % (mr, ir), "case": line})
        ck.cov["traces_validated_against_impl"] += len(probe_lines)

    # ---- D (direct): the property on the implementation's own tables and behaviour
    latest = rt["latest"]
    tabs = {}
    for v in range(0, 4):
        tabs[v] = ({bytes.fromhex(a): n for a, n in rt["from%d" % v]}, {n: bytes.fromhex(a) for n, a in rt["to%d" % v]})
    prim = {n: int(z) for n, z in rt["prim_map"]}
    prim_rows = [(n, int(z)) for n, z in rt["prims"]]
    if len({n for n, _ in prim_rows}) != len(prim_rows):
        direct_failures.append({"clause": "modern primitive list has a duplicate name", "rows": [n for n, _ in prim_rows]})
    for v in (0, 1, 2):
        fr, to = tabs[v]
        for a, n in fr.items():
            if to.get(n) != a:
                direct_failures.append({"clause": "inverse", "version": v, "opcode": a.hex(), "name": n, "to_atom(name)": (to.get(n) or b"").hex()})
        for n, a in to.items():
            if fr.get(a) != n:
                direct_failures.append({"clause": "inverse", "version": v, "name": n, "opcode": a.hex(), "from_atom(opcode)": fr.get(a)})
        if v > 0:
            pf, pt = tabs[v - 1]
            for a, n in pf.items():
                if fr.get(a) != n:
                    direct_failures.append({"clause": "versions only add names", "version": v, "opcode": a.hex(), "older": n, "newer": fr.get(a)})
            for n, a in pt.items():
                if to.get(n) != a:
                    direct_failures.append({"clause": "versions only add names", "version": v, "name": n, "older": a.hex(), "newer": (to.get(n) or b"").hex()})
    if tabs[3] != tabs[latest] or latest != 2:
        if tabs[3] != tabs[2]:
            direct_failures.append({"clause": "version > latest must behave as latest"})
    fr, to = tabs[latest]
    for n, a in to.items():
        if prim.get(n) != int.from_bytes(a, "big"):
            direct_failures.append({"clause": "classic name vs modern primitive", "name": n, "classic": a.hex(), "modern": prim.get(n)})
    for n, z in prim.items():
        if n not in to or int.from_bytes(to[n], "big") != z:
            direct_failures.append({"clause": "modern primitive vs classic keyword", "name": n, "modern": z, "classic": (to.get(n) or b"").hex()})
    # implemented by the evaluator of the version
    pr = dict(zip(probe_lines, probes))
    for v in (0, 1, 2):
        for a, n in tabs[v][0].items():
            r = pr.get("probe_op\t%d\t%s" % (v, a.hex()))
            if r is None or r == "UNIMPL":
                direct_failures.append({"clause": "opcode named by version %d is not implemented by its evaluator" % v, "name": n, "opcode": a.hex(), "runner": r})
    # one-operator programs through each compiler, and a stepper run by name vs by opcode
    names = sorted(to)
    lines = []
    for n in names:
        lines.append("compile\t1\t\t" + h("(mod (X Y) (%s X Y))" % n))
        lines.append("compile\t1\t\t" + h("(mod (X Y) (include *standard-cl-23*) (%s X Y))" % n))
        lines.append("compile\t0\t\t" + h("(mod (X Y) (include *standard-cl-21*) (%s X Y))" % n))
        lines.append("steptext\t" + h("(%s (q . 1) (q . 2))" % n) + "\t" + h("()"))
        lines.append("steptext\t" + h("(%d (q . 1) (q . 2))" % int.from_bytes(to[n], "big")) + "\t" + h("()"))
        lines.append("run\t%d\t%s\t%s" % (latest, vlib.lst([vlib.atom(to[n]), vlib.cons("x01", "x01"), vlib.cons("x01", "x02")]), "x"))
    res = vlib.impl(lines, timeout_line=60)
    ck.cov["evaluations"] += len(lines)

    def heads(v, acc):
        # every atom in head position of any pair of the tree (quoted code included:
        # unoptimised builds keep the body under (a (q . body) env))
        st = [v]
        while st:
            x = st.pop()
            if isinstance(x, tuple):
                if isinstance(x[0], bytes):
                    acc.add(x[0])
                else:
                    st.append(x[0])
                st.append(x[1])
    for i, n in enumerate(names):
        want = to[n]
        c_classic, c_23, c_21, s_name, s_op, r_op = res[6 * i:6 * i + 6]
        for label, c in (("classic", c_classic), ("cl23", c_23), ("cl21", c_21)):
            if not c.startswith("OK "):
                direct_failures.append({"clause": "one-operator program does not compile", "compiler": label, "name": n, "result": c[:200]})
                continue
            tree = vlib.parse_val(c[3:].split("\t")[0])
            hs = set()
            heads(tree, hs)
            if n == "/" and to.get("divmod") in hs:
                continue   # by design: the compilers lower (/ a b) to (f (divmod a b))
            if want not in hs and not (n == "q"):
                direct_failures.append({"clause": "compiler emits a different opcode for the name", "compiler": label, "name": n, "want": want.hex(), "program": c[3:].split("\t")[0]})
        if s_name.split(" ")[0] != s_op.split(" ")[0] or (s_name.startswith("OK") and s_name != s_op):
            direct_failures.append({"clause": "stepper: name and opcode behave differently", "name": n, "by_name": s_name[:120], "by_opcode": s_op[:120]})
        if n not in ("q", "a", "softfork"):
            if s_op.startswith("OK") != r_op.startswith("OK") or (s_op.startswith("OK") and s_op != r_op):
                direct_failures.append({"clause": "stepper and evaluator disagree on a one-operator program", "name": n, "stepper": s_op[:120], "evaluator": r_op[:120]})
    ck.cov["distinct_nontrivial"] = len(names) * 6 + len(set(probe_lines))
    ck.cov["rule"] = "finite domain, enumerated completely: every (name, opcode) of the runtime tables for versions 0..3, prims(), prim_map(), each opcode 0..255 + 4-byte secp opcodes + non-canonical spellings probed on the runner of each version, one-operator program per name through classic/cl21/cl23 compilers, stepper by name and by opcode"
    ck.cov["exhaustive"] = True
    ck.cov["samples"] = [lines[0], lines[3], probe_lines[62], {"names": names[:8]}]
    ck.cov["trusted_base"] = ["Coq 8.16.1 kernel + vm_compute", "translator/gen.py (cross-checked against runtime tables this run)",
                              "harness + OCaml driver glue", "clvmr chia_dialect.rs read from the cargo registry source"]
    ck.assumptions = ["clvmr source in ~/.cargo/registry is the code linked into the harness (pinned by Cargo.lock)"]
    ck.cov["disagreements_checked"] = len(disagreements)

    # ---- E: decide
    for d in direct_failures:
        ck.violation({"kind": "direct", "failing": d, "how_to_replay": "bin/check C20 (finite domain; every run enumerates it)"})
    if not direct_failures:
        if not proved:
            ck.violation({"kind": "proof-broken", "broken": ck.proof_failure["broken"], "detail": ck.proof_failure["detail"][-1500:],
                          "searched": "all runtime tables, opcodes 0..255 x 3 versions, one-operator programs: no failing input"}, no_input=True)
        elif disagreements or not driver_ok:
            ck.violation({"kind": "correspondence-broken", "broken": "C20 tie: runtime tables / runner vs coq/Gen/OpTables.v",
                          "disagreements": disagreements[:10], "notes": ck.notes}, no_input=True)


def replay(path):
    print("C20's domain is finite and enumerated completely by every run: re-run bin/check C20")
    return 0
