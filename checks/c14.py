"""C14 - front ends never crash: any input yields a result or a located error."""
import glob
import json
import os
import re
import vlib
import srcgen

LEVEL = "other"

TOKENS = ["(", ")", "(", ")", " ", "\n", ".", "mod", "defun", "defun-inline", "defmacro", "defmac", "defconstant", "defconst", "lambda", "let", "let*", "assign", "assign-lambda", "if", "list", "qq", "unquote",
          "q", "a", "c", "f", "r", "i", "x", "+", "-", "*", "include", "*standard-cl-21*", "*strict-cl-21*", "*standard-cl-22*", "*standard-cl-23*", "*standard-cl-23.1*", "*standard-cl-24*",
          "embed-file", "compile-file", "&rest", "@", "&", "X", "Y", "F", "1", "-1", "0x10", "0x", "\"s\"", "'t'", "\"", "'", "#", "#(", ";c\n", "\\", "$", "com", "opt", "sha256", "softfork", "()", "(q . 1)", "(mod (X) X)"]
PSEUDO = re.compile(r"^\*.*\*$")


def soup(rng, n):
    return " ".join(rng.choice(TOKENS) for _ in range(n))


def mutate(rng, text):
    toks = re.findall(r"\(|\)|\"[^\"]*\"|[^\s()]+|\s+", text)
    if len(toks) < 3:
        return text + ")"
    k = rng.random()
    i = rng.randrange(len(toks))
    if k < 0.3:
        del toks[i]
    elif k < 0.55:
        toks.insert(i, toks[i])
    elif k < 0.8:
        j = rng.randrange(len(toks))
        toks[i], toks[j] = toks[j], toks[i]
    else:
        toks[i] = rng.choice(TOKENS)
    return "".join(toks)


def gen_inputs(ck):
    rng = ck.rng
    texts = []
    n = 250 if ck.tier == "quick" else 4000
    for _ in range(n):
        texts.append(("soup", soup(rng, rng.randint(1, 40))))
    # valid programs from the generator and their mutations / truncations
    progs = []
    for _ in range(40 if ck.tier == "quick" else 400):
        g = srcgen.Gen(rng, depth=2)
        p = g.program()
        d = rng.choice([x for x in srcgen.SIGILS if srcgen.renderable(p, x)])
        progs.append(srcgen.render(p, d))
    shipped = sorted(glob.glob(os.path.join(vlib.REPO, "resources", "tests", "**", "*.clsp"), recursive=True) + glob.glob(os.path.join(vlib.REPO, "resources", "tests", "**", "*.cl*"), recursive=True))
    rng.shuffle(shipped)
    for f in shipped[:15 if ck.tier == "quick" else 150]:
        try:
            t = open(f).read()
            if len(t) < 6000:
                progs.append(t)
        except Exception:
            pass
    for t in progs:
        for _ in range(4):
            texts.append(("mutation", mutate(rng, t)))
        for _ in range(3):
            texts.append(("truncation", t[:rng.randrange(0, len(t) + 1)]))
    # nesting up to 200
    for d in (50, 200):
        texts.append(("nesting", "(" * d + "q" + ")" * d))
        texts.append(("nesting", "(" * d))
        texts.append(("nesting", "(mod (X) " + "(+ 1 " * d + "X" + ")" * d + ")"))
        texts.append(("nesting", "(mod (X) (include *standard-cl-23*) " + "(c 1 " * d + "X" + ")" * d + ")"))
    # random bytes (latin-1 text)
    for _ in range(80 if ck.tier == "quick" else 1000):
        texts.append(("random", bytes(rng.getrandbits(8) for _ in range(rng.randint(0, 40))).decode("latin1")))
    # repl-specific lines
    for l in ['")"', "')'", "(+ 1", ")", "(defun F (X) (F X))\n(F 1)", "(defun-inline G (X) (G X))\n(G 1)", "(defmacro M (X) (qq (M (unquote X))))\n(M 1)", '"unterminated', "(q . )", "#(", "(defconstant A A)\nA"]:
        texts.append(("repl", l))
    return texts


LOC = re.compile(r"^(?:ERR )?(.+?)\((\d+)\):(\d+)(?:-.+?\((\d+)\):(\d+))?: ")


def run(ck):
    vlib.global_lock()
    try:
        vlib.build_harness()
    finally:
        vlib.global_unlock()
    texts = gen_inputs(ck)
    lines = []
    meta = []
    for kind, t in texts:
        h = t.encode("latin1", "replace").hex() if kind == "random" else t.encode().hex()
        ops = ["compile\t1\t\t" + h, "assemble\t" + h, "parse_locs\t" + h, "deps\t\t" + h + "\t*verif*", "unused\t" + h, "repl\t" + h,
               "steptext\t" + h + "\t" + "()".encode().hex()]
        if kind in ("soup", "mutation", "truncation"):
            # force every dialect onto token soup by prefixing a sigil-bearing mod
            pass
        for o in ops:
            lines.append(o)
            meta.append((kind, t, o.split("\t")[0]))
        # as binary: deserialise the bytes, and disassemble / run whatever comes out
        lines.append("deser\t" + h)
        meta.append((kind, t, "deser"))
    res = vlib.impl(lines, timeout_line=30)
    # second stage: values that deserialised are disassembled and run
    l2 = []
    m2 = []
    for (kind, t, op), r in zip(meta, res):
        if op == "deser" and r.startswith("OK "):
            v = r[3:].rsplit(" ", 1)[0]
            l2.append("disassemble\t-\t" + v)
            m2.append((kind, t, "disassemble"))
            l2.append("run\t2\t%s\tx" % v)
            m2.append((kind, t, "run"))
            rr = None
        if op == "assemble" and r.startswith("OK "):
            v = r[3:]
            l2.append("run\t2\t%s\t(x01 x02)" % v)
            m2.append((kind, t, "brun"))
    res2 = vlib.impl(l2, timeout_line=30)
    direct = []
    hits = {}
    ops_count = {}
    kinds = {}
    for (kind, t, op), r in list(zip(meta, res)) + list(zip(m2, res2)):
        ops_count[op] = ops_count.get(op, 0) + 1
        kinds[kind] = kinds.get(kind, 0) + 1
        if r is None or r.startswith(("PANIC", "ABORT", "TIMEOUT")):
            direct.append({"clause": "an entry point panicked, aborted or did not return", "entry": op, "input_kind": kind, "input": t[:2000], "result": (r or "")[:300]})
            continue
        if op == "compile" and r.startswith("ERR ") and "(include *" in t:
            m = LOC.match(r)
            if m:
                fname, l1, c1 = m.group(1), int(m.group(2)), int(m.group(3))
                if fname == "*verif*":
                    tl = t.split("\n")
                    if not (1 <= l1 <= len(tl) + 1 and 1 <= c1 <= (len(tl[l1 - 1]) if l1 <= len(tl) else 0) + 2):
                        direct.append({"clause": "a compiler error's location lies outside the input text", "input": t[:2000], "error": r[:300]})
                elif not PSEUDO.match(fname):
                    direct.append({"clause": "a compiler error names a file that is neither the input, an include file nor a pseudo-file", "input": t[:2000], "error": r[:300]})
    ck.cov["evaluations"] = len(lines) + len(l2)
    ck.cov["distinct_nontrivial"] = len({t for _, t in texts})
    ck.cov["rule"] = ("token soup over keywords and delimiters, single-token deletion / duplication / swap / replacement and truncations of generated and shipped programs, parenthesis nesting 50 and 200, random bytes, REPL lines; "
                      "each input through compile, assemble, the modern reader, dependency listing, unused-argument check, REPL, the stepper, the deserialiser and (when they succeed) disassemble / run; "
                      "a panic, abort or timeout is a failure; modern compile errors must be located in the input or a pseudo-file and in bounds")
    ck.cov["samples"] = [texts[0][1][:200], texts[300][1][:200] if len(texts) > 300 else texts[-1][1][:200]]
    ck.cov["entries"] = ops_count
    ck.cov["input_kinds"] = kinds
    ck.cov["explanation"] = ("Crash search, not proof: absence of panics / aborts / hangs in unmodelled Rust is not a statement about any model. The reader and decoder layers are total functions in the Coq models of C08 "
                             "(decode) and C15 (reader spans); everything else is explored by execution under catch_unwind with a wall-clock limit in child processes.")
    ck.cov["trusted_base"] = ["harness catch_unwind + per-line watchdog (lib/vlib.py run_batch)"]
    seen = set()
    for x in direct:
        key = (x["clause"], x.get("entry"), x.get("result", "")[:60])
        if key in seen:
            continue
        seen.add(key)
        if len(seen) > 8:
            break
        ck.violation({"kind": "direct", "failing": x})


def replay(path):
    d = json.load(open(path))
    f = d.get("failing", {})
    if "input" in f and "entry" in f:
        vlib.build_harness()
        h = f["input"].encode().hex()
        op = {"compile": "compile\t1\t\t" + h, "repl": "repl\t" + h, "assemble": "assemble\t" + h, "parse_locs": "parse_locs\t" + h, "unused": "unused\t" + h,
              "deps": "deps\t\t" + h + "\t*verif*", "deser": "deser\t" + h, "steptext": "steptext\t" + h + "\t2829"}.get(f["entry"])
        if op:
            print(vlib.impl([op], timeout_line=60))
    return 0
