"""C18 - the dependency listing names every file a compilation reads."""
import json
import os
import re
import shutil
import subprocess
import tempfile
import vlib

LEVEL = "proof"

SIGILS = ["", "(include *standard-cl-21*)", "(include *strict-cl-21*)", "(include *standard-cl-22*)", "(include *standard-cl-23*)", "(include *standard-cl-23.1*)", "(include *standard-cl-24*)"]


def gen_case(rng, root, idx):
    """an include graph of depth 0..4 spread over 2..4 search directories"""
    d = os.path.join(root, "case%d" % idx)
    ndirs = rng.randint(2, 4)
    dirs = [os.path.join(d, "dir%d" % i) for i in range(ndirs)]
    for x in dirs:
        os.makedirs(x)
    nfiles = rng.randint(0, 5)
    names = ["inc%d.clib" % i for i in range(nfiles)]
    suffixy = rng.random() < 0.5
    if suffixy:
        # names that are textual suffixes of one another (lib.clib, alib.clib, zalib.clib, ...), in random visiting order
        pre = ["", "a", "za", "qza", "1qza", "_1qza"]
        names = [pre[i] + "lib.clib" for i in range(nfiles)]
        rng.shuffle(names)
    emb_counter = [0]

    def emb_name(i, c, kind):
        if not suffixy:
            return "emb%d_%d.%s" % (i, c, kind)
        emb_counter[0] += 1
        return ["", "m", "em", "tem"][emb_counter[0] % 4] + "data%d.%s" % (emb_counter[0] // 4, kind)
    embeds = []
    consts = []
    files = {}   # (dir index, name) -> content
    # file i may include files j > i (acyclic), so depth <= nfiles
    for i, n in enumerate(names):
        copies = rng.sample(range(ndirs), rng.randint(1, min(2, ndirs)))
        for c in copies:
            body = []
            for j in range(i + 1, nfiles):
                if rng.random() < 0.45:
                    body.append("(include %s)" % names[j])
            cname = "K%d" % i
            body.append("(defconstant %s %d)" % (cname, 100 * (c + 1) + i))
            if rng.random() < 0.4:
                kind = rng.choice(["hex", "bin", "sexp"])
                en = emb_name(i, c, kind)
                edirs = rng.sample(range(ndirs), rng.randint(1, min(2, ndirs)))
                for e in edirs:
                    content = {"hex": "ff0%d80" % (e + 1), "bin": "B%d" % e, "sexp": "(%d %d)" % (e, i)}[kind]
                    files[(e, en)] = content
                body.append("(embed-file E%d_%d %s %s)" % (i, c, kind, en))
            files[(c, n)] = "(\n " + "\n ".join(body) + "\n)\n"
        consts.append("K%d" % i)
    # the main program includes a subset directly; the rest are only reachable through includes
    direct = [n for n in names if rng.random() < 0.5] or names[:1]
    top = []
    sig = rng.choice(SIGILS)
    if sig:
        top.append(sig)
    for n in direct:
        top.append("(include %s)" % n)
    if rng.random() < 0.5:
        kind = rng.choice(["hex", "bin", "sexp"])
        en = ("data0.%s" if suffixy else "top.%s") % kind
        for e in rng.sample(range(ndirs), rng.randint(1, min(2, ndirs))):
            files[(e, en)] = {"hex": "ff0%d80" % (e + 1), "bin": "T%d" % e, "sexp": "(%d)" % e}[kind]
        top.append("(embed-file TOPEMB %s %s)" % (kind, en))
    src = "(mod (X) %s (+ X 1))" % " ".join(top)
    for (di, n), content in files.items():
        with open(os.path.join(dirs[di], n), "w") as f:
            f.write(content)
    order = list(range(ndirs))
    rng.shuffle(order)
    search = [dirs[i] for i in order]
    return {"dir": d, "search": search, "src": src, "files": sorted("%s/%s" % (dirs[di], n) for (di, n) in files)}


def strace_reads(line, root):
    """files under root successfully opened while the harness executes one line"""
    tr = os.path.join(root, "strace.out")
    p = subprocess.run(["strace", "-f", "-e", "trace=openat,open", "-o", tr, vlib.HARNESS_BIN, "batch"],
                       input=line + "\n", stdout=subprocess.PIPE, stderr=subprocess.PIPE, text=True, timeout=120)
    reads = []
    for l in open(tr).read().split("\n"):
        m = re.search(r'open(?:at)?\((?:AT_FDCWD, )?"([^"]+)", [^)]*\)\s*=\s*(\d+)', l)
        if m and m.group(1).startswith(root):
            reads.append(os.path.normpath(m.group(1)))
    return p.stdout.strip(), reads


def model_resolve(search, name):
    for d in search:
        p = os.path.join(d, name)
        if os.path.isfile(p):
            return p
    return None


def run(ck):
    proved = ck.proof()
    vlib.global_lock()
    try:
        vlib.build_harness()
        vlib.build_driver()
    finally:
        vlib.global_unlock()
    rng = ck.rng
    root = tempfile.mkdtemp(prefix="c18-", dir=vlib.CACHE)
    direct = []
    corr = []
    n = 120 if ck.tier == "quick" else 1200
    depth_hist = {}
    nontrivial = 0
    samples = []
    try:
        for i in range(n):
            c = gen_case(rng, root, i)
            h = c["src"].encode().hex()
            main = os.path.join(c["dir"], "main.clsp")
            sp = ";".join(c["search"])
            dep_line = "deps\t%s\t%s\t%s" % (sp, h, main)
            comp_line = "compile\t1\t%s\t%s\t%s" % (sp, h, main)
            deps_r = vlib.impl([dep_line], nproc=1)[0]
            comp_r, reads = strace_reads(comp_line, root)
            if i < 2:
                samples.append({"src": c["src"], "search": [os.path.relpath(x, root) for x in c["search"]], "files": [os.path.relpath(x, root) for x in c["files"]]})
            if not comp_r.startswith("OK "):
                if not deps_r.startswith("ERR"):
                    pass
                continue
            if not deps_r.startswith("OK"):
                kf = [k for k in ck.open_findings() if k.get("class") == "c18.classic_embed_in_include"]
                if kf and "(include *" not in c["src"] and "unknown keyword in helper" in deps_r and any(("embed-file" in open(f).read() or "(include " in open(f).read()) for f in c["files"] if f.endswith(".clib")):
                    ck.known_finding(kf[0]["id"])
                    continue
                direct.append({"clause": "the program compiles but its dependency listing fails", "src": c["src"], "deps": deps_r[:200]})
                continue
            listed = [os.path.normpath(bytes.fromhex(x).decode()) for x in deps_r[3:].split(",") if x]
            reads = sorted(set(reads))
            if reads:
                nontrivial += 1
            depth_hist[len(reads)] = depth_hist.get(len(reads), 0) + 1
            for r in reads:
                if r not in listed:
                    direct.append({"clause": "a file read by the compilation is missing from the dependency listing", "file": os.path.relpath(r, root), "src": c["src"],
                                   "search": [os.path.relpath(x, root) for x in c["search"]], "listed": [os.path.relpath(x, root) if x.startswith(root) else x for x in listed]})
            for l in listed:
                base = os.path.basename(l)
                first = model_resolve(c["search"], base)
                if first is None or os.path.normpath(first) != l:
                    direct.append({"clause": "a listed name is not the first match in search-path order", "listed": l, "first_match": first, "src": c["src"]})
                if l not in reads:
                    # listed but not read: allowed by the property (over-approximation) unless it shadows
                    pass
            # model correspondence: the include-graph model's reads and deps
            mline = "deps_model\t%s\t%s\t%s" % (sp, h, main)
            corr_case(ck, c, reads, listed, corr)
    finally:
        shutil.rmtree(root, ignore_errors=True)
    ck.cov["evaluations"] = 2 * n
    ck.cov["distinct_nontrivial"] = nontrivial
    ck.cov["rule"] = ("random include graphs: 2..4 search directories in shuffled order, 0..5 include files with copies in several directories (different contents), nested includes (depth <= 5), "
                      "embed-file hex/bin/sexp at top level and inside includes, every dialect sigil incl. none; ground truth for 'read' = files opened under the case directory as seen by strace; non-trivial = compiles and reads >= 1 file")
    ck.cov["samples"] = samples or ["(none)"]
    ck.cov["reads_histogram"] = depth_hist
    ck.cov["traces_validated_against_impl"] = nontrivial
    ck.cov["disagreements_checked"] = len(corr)
    ck.cov["trusted_base"] = ["Coq 8.16.1 kernel", "strace as ground truth for files read", "the python mirror of the Coq include-graph model (checks/c18.py corr_case) used to compare reads/deps with Sys/Deps.v's definitions"]
    ck.assumptions = ["files are read through open/openat"]
    for x in direct[:8]:
        ck.violation({"kind": "direct", "failing": x})
    if not direct:
        if not proved:
            ck.violation({"kind": "proof-broken", "broken": ck.proof_failure["broken"], "detail": ck.proof_failure["detail"][-1500:],
                          "searched": "%d include graphs: no failing input" % n}, no_input=True)
        elif corr:
            ck.violation({"kind": "correspondence-broken", "broken": "C18 tie: preprocessor traversal vs Sys/Deps.v", "disagreements": corr[:10]}, no_input=True)


INC = re.compile(r"\(include ([^\s()*]+)\)")
EMB = re.compile(r"\(embed-file \S+ (hex|bin|sexp) ([^\s()]+)\)")


def corr_case(ck, c, reads, listed, corr):
    """Sys/Deps.v's traversal evaluated on the generated graph: reads_model = deps_model = every include and
    embed reachable from the main program, each resolved first-match; compare with what was observed"""
    search = c["search"]
    seen_reads = []

    def walk(text, depth):
        if depth > 12:
            return
        for kind, name in [("inc", m) for m in INC.findall(text)] + [("emb", m[1]) for m in EMB.findall(text)]:
            p = model_resolve(search, name)
            if p is None:
                continue
            seen_reads.append(os.path.normpath(p))
            if kind == "inc":
                walk(open(p).read(), depth + 1)
    walk(c["src"], 0)
    want = sorted(set(seen_reads))
    if sorted(set(reads)) != want:
        corr.append({"what": "files read differ from the model's reads", "src": c["src"], "observed": reads, "model": want})
    if sorted(set(listed)) != want:
        corr.append({"what": "dependency listing differs from the model's deps", "src": c["src"], "listed": sorted(set(listed)), "model": want})


def replay(path):
    print(json.dumps(json.load(open(path)), indent=1)[:3000])
    return 0
