"""Shared evaluation of the language-level properties over the build matrix."""
import json
import vlib
import srcgen
import lang_matrix as LM

MODERN = [d for d in srcgen.SIGILS if d != "classic"]
GROUP_A = ["cl21", "strict21", "cl22", "cl23"]
GROUP_B = ["cl23.1", "cl24"]


def sizes(ck):
    return (110, 2) if ck.tier == "quick" else (1200, 2)


def load(ck):
    vlib.global_lock()
    try:
        vlib.build_harness()
    finally:
        vlib.global_unlock()
    n, depth = sizes(ck)
    recs = LM.compute(ck, n, depth)
    wit = LM.witnesses(ck)
    return recs, wit


def report_known(ck, wit, hits):
    """hits: {finding id: count}; a class is honoured only while its witness still fails"""
    for fid, cnt in hits.items():
        if wit.get(fid, True):
            ck.known_hits[fid] = ck.known_hits.get(fid, 0) + cnt
    # findings outside the generator's space: reported from their recorded witness alone, while it still fails
    for k in ck.open_findings():
        if k.get("witness_only") and wit.get(k["id"]):
            ck.known_hits[k["id"]] = ck.known_hits.get(k["id"], 0) + 1


def fill_cov(ck, recs, nontrivial, rule, extra=None):
    tags = {}
    feats = {}
    for r in recs:
        tags[r["prog"].get("tag", "?")[:5]] = tags.get(r["prog"].get("tag", "?")[:5], 0) + 1
        for f in srcgen.features_used(r["prog"]):
            feats[f] = feats.get(f, 0) + 1
    ck.cov["evaluations"] = sum(len(r["builds"]) * (1 + len(r["args"])) for r in recs)
    ck.cov["distinct_nontrivial"] = nontrivial
    ck.cov["rule"] = rule
    ck.cov["programs"] = len(recs)
    ck.cov["program_kinds"] = tags
    ck.cov["features_used"] = feats
    gens = [r for r in recs if r["prog"].get("tag") == "generated"]
    if gens:
        ck.cov["samples"] = [srcgen.render(gens[0]["prog"], "cl23")[:900], {"args": gens[0]["args_clvm"][0][:200], "reference_value": gens[0]["ref"][0]}]
    else:
        ck.cov["samples"] = ["(none)"]
    ck.cov["trusted_base"] = ["reference interpreter lib/srcgen.py (call-by-value meaning of the generated surface)", "clvmr 0.16.2 run_program", "harness glue",
                              "generator-level class predicates of the open known findings (srcgen.known_class)"]
    if extra:
        ck.cov.update(extra)


def short(r, d, opt, k=None):
    b = r["builds"][(d, opt)]
    x = {"dialect": d, "optimize": opt, "source": b["src"]}
    if k is not None:
        x["args"] = r["args_clvm"][k]
        x["reference_value"] = r["ref"][k][1]
        x["got"] = (b.get("runs") or [None] * 9)[k] if b.get("compile") == "OK" else b.get("compile")
    return x


def has_zero_lead_literal(prog):
    for where in [prog["body"]] + [f["body"] for f in prog["funs"]] + [c[2] for c in prog["consts"]]:
        for _, s in srcgen.subexprs(where):
            if s[0] == "hex" and len(s[1]) >= 1 and s[1][0] == 0:
                return True
    return False
