"""C04 - the CLVM-level optimiser preserves the meaning of any CLVM it is given."""
import json
import vlib
import clvmgen as G
from vlib import atom, cons, lst, int_atom

LEVEL = "proof"


def classify_known(ck, prog, env):
    """narrow classes of the open known findings (executable predicates over the failing input)"""
    pv = vlib.parse_val(prog)

    def has_pair_head(v):
        st = [v]
        while st:
            x = st.pop()
            if isinstance(x, tuple):
                if isinstance(x[0], tuple):
                    return True
                st.append(x[0])
                st.append(x[1])
        return False
    for k in ck.open_findings():
        if k.get("class") == "c04.pair_head" and has_pair_head(pv):
            return k["id"]
    return None


def gen(ck):
    rng = ck.rng
    cases = []   # (prog, [envs], tag)
    env3 = G.env_tree(3)
    envs_small = [env3, "x", cons("x0b", cons("x16", "x21")), lst(["x01", "x02", "x03"]), cons(cons("x05", "x06"), cons("x07", "x08"))]
    # (a) exhaustive small trees
    alpha = G.small_alphabet()
    maxleaves = 3 if ck.tier == "quick" else 4
    for n in range(1, maxleaves + 1):
        for t in G.all_trees(alpha, n):
            cases.append((t, envs_small[:3], "exhaustive%d" % n))
    if ck.tier == "quick":
        pool = list(G.all_trees(alpha, 2))
        for _ in range(6000):
            t = cons(rng.choice(pool), rng.choice(pool)) if rng.random() < 0.5 else cons(rng.choice(alpha), cons(rng.choice(pool), rng.choice(alpha + [G.NIL] * 5)))
            cases.append((t, envs_small[:2], "sampled4"))
    # well-formed small expressions, exhaustively: (op X Y) with X, Y from atoms / quoted
    leafs = [G.NIL, "x01", "x02", "x03", "x05", "x06", "x07", G.q("x01"), G.q(G.NIL), G.q(cons("x02", "x03")), lst([G.C, "x02", "x03"])]
    for op in (G.A, G.I, G.C, G.F, G.R, G.L, G.EQ, G.ADD, G.SUB):
        for x in leafs:
            cases.append((lst([op, x]), envs_small, "wf1"))
            for y in leafs:
                cases.append((lst([op, x, y]), envs_small, "wf2"))
    # pair heads ((X) . operands): operands are passed unevaluated
    for opx in (G.C, G.F, G.R, G.L, G.ADD, G.Q, G.A, G.EQ):
        for operands in (lst(["x01", "x02"]), lst(["x02"]), lst([cons("x02", "x03")]), lst([G.q("x05"), "x01"]), G.NIL, lst(["x05", "x06", "x07"])):
            ph = cons(lst([opx]), operands)
            cases.append((ph, envs_small, "pairhead"))
            cases.append((lst([G.A, G.q(ph), "x01"]), envs_small, "pairhead"))
            cases.append((lst([G.A, G.q(ph), "x05"]), envs_small, "pairhead"))
            cases.append((lst([G.A, G.q(ph), lst([G.C, "x02", "x03"])]), envs_small, "pairhead"))
            cases.append((lst([G.C, G.q("x01"), ph]), envs_small, "pairhead"))
            # the call is a path and the ARGUMENTS are a ((X) . operands) form: the substituted form is pair-headed (D31)
            for pth in ("x01", "x02", "x03", "x05"):
                cases.append((lst([G.A, G.q(pth), ph]), envs_small, "pairhead_args"))
            cases.append((lst([G.A, G.q(lst([G.C, "x01", "x01"])), ph]), envs_small, "pairhead_args"))
            cases.append((cons(cons(opx, "x05"), operands), envs_small, "pairhead"))
    # (b) typed random
    eg = G.ExprGen(rng)
    for _ in range(2500 if ck.tier == "quick" else 40000):
        cases.append((eg.expr(3, rng.randint(1, 6)), [env3], "typed"))
    # (c) shape-directed: path atoms of 1..9 bytes
    for pb in G.path_bytes_variants(rng):
        p = int.from_bytes(pb, "big")
        envs = [G.env_for_path(p)] if p >= 1 else [env3]
        if p >= 1:
            envs.append(G.env_for_path(p * 2, filler=7))       # deep enough for (f path)
            envs.append(G.env_for_path(p * 2 + 1, filler=9)) if False else None
            envs = [e for e in envs if e]
            # (f P) / (r P) need the target to be a pair
            deep = G.env_for_path(p, leaf=cons("x4c", "x52"))
            envs.append(deep)
        pa = atom(pb)
        cases.append((pa, envs, "path"))
        for op in (G.F, G.R):
            cases.append((lst([op, pa]), envs, "path_fr"))
            cases.append((lst([op, lst([op, pa])]), [G.env_for_path(p, leaf=cons(cons("x41", "x42"), cons("x43", "x44")))] if p >= 1 else envs, "path_fr2"))
        # re-rooting on the path itself: (a (q . X) P)
        for body in ("x02", "x01", lst([G.C, "x03", "x02"]), lst([G.F, "x01"])):
            cases.append((lst([G.A, G.q(body), pa]), [G.env_for_path(p, leaf=cons(cons("x41", "x42"), cons("x43", "x44")))] if p >= 1 else envs, "reroot_path"))
        # re-rooting: (a (q . (c P 2)) ENVEXPR) with ENVEXPR = 1, a path, a cons
        for envexpr in ("x01", "x03", lst([G.C, "x02", "x03"]), lst([G.C, "x01", "x01"])):
            cases.append((lst([G.A, G.q(lst([G.C, pa, "x02"])), envexpr]), envs, "reroot"))
            cases.append((lst([G.A, G.q(pa), envexpr]), envs, "reroot"))
    # f/r chains of length 0..80 applied to paths
    for n in list(range(0, 12)) + [15, 16, 17, 31, 32, 33, 63, 64, 65, 80]:
        for _ in range(2):
            bits = [rng.getrandbits(1) for _ in range(n)]
            base = rng.choice([1, 2, 3, 5, 6])
            e = int_atom(base)
            p = base
            for b in bits:
                e = lst([G.R if b else G.F, e])
                nb = p.bit_length() - 1
                p = (1 << (nb + 1)) | (b << nb) | (p & ((1 << nb) - 1))
            cases.append((e, [G.env_for_path(p)], "chain%d" % (n // 20 * 20)))
            cases.append((lst([G.A, G.q(e), "x01"]), [G.env_for_path(p)], "chain_reroot"))
    return cases


def run(ck):
    proved = ck.proof()
    vlib.global_lock()
    try:
        vlib.build_harness()
        vlib.build_driver()
    finally:
        vlib.global_unlock()
    cases = gen(ck)
    progs = list(dict.fromkeys(c[0] for c in cases))
    opt_lines = ["opt\t" + p for p in progs]
    i_opt = vlib.impl(opt_lines, timeout_line=60)
    m_opt = vlib.model(opt_lines, timeout_line=60)
    optd = dict(zip(progs, i_opt))
    corr = []
    direct = []
    n_oof = 0
    for p, a, b in zip(progs, i_opt, m_opt):
        if b == "OOF":
            n_oof += 1
            continue
        if a != b:
            corr.append({"op": "optimize_sexp", "program": p[:300], "impl": a[:300], "model": b[:300]})
    # direct: run R and opt(R) on every environment
    run_lines = []
    meta = []
    for p, envs, tag in cases:
        for e in envs:
            run_lines.append("run\t2\t%s\t%s" % (p, e))
            meta.append((p, e, tag, "orig"))
            o = optd[p]
            if o.startswith("OK "):
                run_lines.append("run\t2\t%s\t%s" % (o[3:], e))
                meta.append((p, e, tag, "opt"))
    # dedupe
    uniq = list(dict.fromkeys(run_lines))
    res = dict(zip(uniq, vlib.impl(uniq, timeout_line=60)))
    mres = dict(zip(uniq, vlib.model(uniq, timeout_line=60)))
    tie = []
    for l in uniq:
        a, b = res[l], mres[l]
        if b == "OOF":
            continue
        if not a.startswith("OK "):
            a = "FAIL"      # errors are one class: failure (cost limits and messages are outside the comparison)
        if a != b:
            # the executable oracle implements a subset of operators: unknown-to-model failures are not ties
            tie.append({"op": "consensus tie: clvmr run vs Clvm/Eval.v+Ops.v", "case": l[:300], "clvmr": a[:200], "model": b[:200]})
    tags = {}
    returning = 0
    seen_pairs = set()
    for p, envs, tag in cases:
        for e in envs:
            if (p, e) in seen_pairs:
                continue
            seen_pairs.add((p, e))
            r0 = res["run\t2\t%s\t%s" % (p, e)]
            if not r0.startswith("OK "):
                continue
            returning += 1
            tags[tag] = tags.get(tag, 0) + 1
            o = optd[p]
            fail = None
            if not o.startswith("OK "):
                fail = {"clause": "the optimiser rejects a program that runs", "program": p, "env": e, "value": r0, "optimizer": o}
            else:
                r1 = res["run\t2\t%s\t%s" % (o[3:], e)]
                if r1 != r0:
                    fail = {"clause": "optimised program returns a different result", "program": p, "env": e, "value": r0, "optimized": o[3:], "optimized_value": r1}
            if fail:
                kid = classify_known(ck, p, e)
                if kid:
                    ck.known_finding(kid)
                else:
                    direct.append(fail)
    ck.cov["evaluations"] = len(opt_lines) + len(uniq)
    ck.cov["distinct_nontrivial"] = returning
    ck.cov["rule"] = ("all trees with <=3 leaves (<=4 thorough; sampled 4 in quick) over {q,a,i,c,f,r,l,x,=,+,-,nil,paths}; all (op X) / (op X Y) over 11 operand shapes; typed random expressions over a depth-3 environment; "
                      "path atoms of 1..9 bytes (all-ones, top-bit-set, zero-padded, zero) bare, under f/r, under (a (q . X) ENV) with 4 ENV shapes; f/r chains of length 0..80; "
                      "non-trivial = (program, environment) pairs on which the original returns a value")
    ck.cov["samples"] = [cases[20][0], cases[-1][0][:200], run_lines[5][:200]]
    ck.cov["returning_by_generator"] = tags
    ck.cov["programs"] = len(progs)
    ck.cov["model_out_of_fuel"] = n_oof
    ck.cov["traces_validated_against_impl"] = len(opt_lines) + len(uniq)
    ck.cov["disagreements_checked"] = len(corr) + len(tie)
    ck.cov["trusted_base"] = ["Coq 8.16.1 kernel", "translator/gen_consts.py (optimizer order, signedness of path reads)", "harness + OCaml driver glue",
                              "clvmr 0.16.2 run_program as the consensus evaluator", "optimizer memo table omitted from the model (assumed observationally the identity)"]
    ck.assumptions = ["operators outside Clvm/Ops.v are not generated"]
    for d in direct[:10]:
        ck.violation({"kind": "direct", "failing": d})
    if not direct:
        if not proved:
            ck.violation({"kind": "proof-broken", "broken": ck.proof_failure["broken"], "detail": ck.proof_failure["detail"][-1500:],
                          "searched": "exhaustive small trees, typed random, shape-directed paths and chains: no failing input"}, no_input=True)
        elif corr or tie:
            ck.violation({"kind": "correspondence-broken", "broken": "C04 tie: stage_2/optimize.rs vs Opt/ClassicOpt.v (or clvmr vs Clvm/Eval.v)",
                          "disagreements": (corr + tie)[:10]}, no_input=True)


def replay(path):
    d = json.load(open(path))
    f = d.get("failing", {})
    if "program" in f:
        vlib.build_harness()
        lines = ["opt\t" + f["program"], "run\t2\t%s\t%s" % (f["program"], f["env"])]
        r = vlib.impl(lines)
        print(lines, r)
        if r[0].startswith("OK "):
            print(vlib.impl(["run\t2\t%s\t%s" % (r[0][3:], f["env"])]))
    else:
        print(json.dumps(d, indent=1)[:3000])
    return 0
