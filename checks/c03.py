"""C03 - classic compiler output computes what the source means."""
import json
import vlib
import srcgen
from checks import _lang as L
from checks.c01 import replay  # noqa

LEVEL = "proof"


def run(ck):
    proved = ck.proof()
    recs, wit = L.load(ck)
    direct = []
    nontrivial = 0
    nclassic = 0
    for r in recs:
        for opt in (True, False):
            b = r["builds"].get(("classic", opt))
            if not b:
                continue
            nclassic += 1
            if b["compile"] != "OK":
                if b["compile"].startswith(("PANIC", "ABORT")):
                    direct.append({"clause": "the classic compiler crashed or did not return", **L.short(r, "classic", opt), "result": b["compile"][:200]})
                continue
            for k, (st, want) in enumerate(r["ref"]):
                if st != "OK":
                    continue
                nontrivial += 1
                got = b["runs"][k]
                if got != "OK " + want:
                    direct.append({"clause": "the classic build does not return the value the source means", **L.short(r, "classic", opt, k)})
                m = r["builds"].get(("cl21", opt))
                if m and m["compile"] == "OK" and not m["known"] and m["runs"][k].startswith("OK ") and got.startswith("OK ") and got != m["runs"][k]:
                    direct.append({"clause": "classic and cl21 builds of the same source return different values", "classic": L.short(r, "classic", opt, k), "cl21": L.short(r, "cl21", opt, k)})
    L.fill_cov(ck, recs, nontrivial,
               "the generated and fixed programs that stay inside the classic surface (defun, defun-inline with destructuring, defmacro templates, defconstant, defconst, if/list, 1..40 parameters) "
               "x optimise on/off (the classic compiler always optimises; both entry flags are exercised) x 3 argument trees; classic vs reference and classic vs cl21; non-trivial = (build, argument) pairs with a reference value",
               {"classic_builds": nclassic})
    for x in direct[:8]:
        ck.violation({"kind": "direct", "failing": x})
    if not direct and not proved:
        ck.violation({"kind": "proof-broken", "broken": ck.proof_failure["broken"], "detail": ck.proof_failure["detail"][-1500:],
                      "searched": "classic builds vs reference and vs cl21: no failing input"}, no_input=True)
