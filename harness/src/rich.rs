// Rich (compiler::sexp::SExp) transport notation:
//   n | i<decimal> | q<2 hex digits of quote byte>x<hex> | a<hex> | '(' rich rich ')'
use std::rc::Rc;
use num_bigint::BigInt;
use chialisp::compiler::sexp::SExp;
use chialisp::compiler::srcloc::Srcloc;

pub fn loc() -> Srcloc {
    Srcloc::start("*verif*")
}

pub fn parse(s: &str) -> Result<Rc<SExp>, String> {
    let b = s.as_bytes();
    let mut i = 0usize;
    enum Fr {
        Open,
        Val(Rc<SExp>),
    }
    let mut st: Vec<Fr> = Vec::new();
    let mut result: Option<Rc<SExp>> = None;
    while i < b.len() {
        match b[i] {
            b' ' => i += 1,
            b'(' => {
                st.push(Fr::Open);
                i += 1;
            }
            b')' => {
                i += 1;
                let r = match st.pop() {
                    Some(Fr::Val(v)) => v,
                    _ => return Err("bad )".into()),
                };
                let l = match st.pop() {
                    Some(Fr::Val(v)) => v,
                    _ => return Err("bad )".into()),
                };
                match st.pop() {
                    Some(Fr::Open) => {}
                    _ => return Err("bad )".into()),
                }
                let n = Rc::new(SExp::Cons(loc(), l, r));
                if st.is_empty() {
                    result = Some(n);
                } else {
                    st.push(Fr::Val(n));
                }
            }
            _ => {
                let mut j = i;
                while j < b.len() && b[j] != b' ' && b[j] != b'(' && b[j] != b')' {
                    j += 1;
                }
                let w = &s[i..j];
                i = j;
                let v = match w.as_bytes()[0] {
                    b'n' => SExp::Nil(loc()),
                    b'i' => {
                        // i<sign>0x<hex magnitude>
                        let t = &w[1..];
                        let (neg, t) = if let Some(r) = t.strip_prefix('-') { (true, r) } else { (false, t) };
                        let t = t.strip_prefix("0x").ok_or("int without 0x")?;
                        let m = BigInt::parse_bytes(t.as_bytes(), 16).ok_or("bad int")?;
                        SExp::Integer(loc(), if neg { -m } else { m })
                    }
                    b'a' => SExp::Atom(loc(), hex::decode(&w[1..]).map_err(|e| format!("{}", e))?),
                    b'q' => {
                        let q = u8::from_str_radix(&w[1..3], 16).map_err(|e| format!("{}", e))?;
                        SExp::QuotedString(loc(), q, hex::decode(&w[4..]).map_err(|e| format!("{}", e))?)
                    }
                    c => return Err(format!("bad rich token {}", c)),
                };
                let n = Rc::new(v);
                if st.is_empty() {
                    result = Some(n);
                } else {
                    st.push(Fr::Val(n));
                }
            }
        }
    }
    result.ok_or_else(|| "empty".to_string())
}

pub fn print(v: &SExp) -> String {
    match v {
        SExp::Nil(_) => "n".to_string(),
        SExp::Integer(_, i) => format!("i{:#x}", i),
        SExp::QuotedString(_, q, b) => format!("q{:02x}x{}", q, hex::encode(b)),
        SExp::Atom(_, b) => format!("a{}", hex::encode(b)),
        SExp::Cons(_, a, b) => format!("({} {})", print(a), print(b)),
    }
}
