// Correspondence harness: executes operations of the *implementation* (/repo, built from the
// current working tree) on inputs given one per line and prints one result line per input.
//   usage: vharness batch      (stdin: "<op>\t<arg>\t<arg>..." ; stdout: one line per input)
//          vharness tables     (C20: runtime tables as JSON-ish lines)
// Values travel in a tiny text notation independent of any /repo code:
//   atom = 'x' hex* ; pair = '(' value value ')'
use std::io::{BufRead, Write};
use std::panic::{catch_unwind, AssertUnwindSafe};

mod val;
mod rich;
mod ops;

fn main() {
    let args: Vec<String> = std::env::args().collect();
    let mode = args.get(1).map(|s| s.as_str()).unwrap_or("batch");
    std::panic::set_hook(Box::new(|_| {}));
    match mode {
        "batch" => {
            let stdin = std::io::stdin();
            let stdout = std::io::stdout();
            let mut out = stdout.lock();
            for line in stdin.lock().lines() {
                let line = match line {
                    Ok(l) => l,
                    Err(_) => break,
                };
                if line.is_empty() {
                    continue;
                }
                let fields: Vec<&str> = line.split('\t').collect();
                let res = catch_unwind(AssertUnwindSafe(|| ops::dispatch(&fields)));
                let txt = match res {
                    Ok(s) => s,
                    Err(e) => {
                        let msg = if let Some(s) = e.downcast_ref::<String>() {
                            s.clone()
                        } else if let Some(s) = e.downcast_ref::<&str>() {
                            s.to_string()
                        } else {
                            "?".to_string()
                        };
                        format!("PANIC {}", msg.replace(['\n', '\t'], " "))
                    }
                };
                let _ = writeln!(out, "{}", txt.replace('\n', "\\n"));
                let _ = out.flush();
            }
        }
        "tool" => {
            // vharness tool <run|brun|cldb|opc|opd> <args...> : the command line tools, in process
            let name = args[2].clone();
            let mut av: Vec<String> = vec![name.clone()];
            av.extend(args[3..].iter().cloned());
            if name == "cldb" {
                chialisp::classic::clvm_tools::cmds::cldb(&av);
            } else {
                use chialisp::classic::clvm::__type_compatibility__::Stream;
                let mut s = Stream::new(None);
                let stage = if name == "run" { 2 } else { 0 };
                chialisp::classic::clvm_tools::cmds::launch_tool(&mut s, &av, &name, stage);
                std::io::stdout().write_all(s.get_value().data()).unwrap();
            }
        }
        "atomic" => {
            // vharness atomic <gentle|atomic|compile> <input path> <output path> <data file>
            let how = &args[2];
            let data = std::fs::read_to_string(&args[5]).unwrap_or_default();
            let r = match how.as_str() {
                "gentle" => chialisp::util::gentle_overwrite(&args[3], &args[4], &data),
                "atomic" => chialisp::util::atomic_write_file(&args[3], &args[4], &data),
                _ => {
                    // file-to-file compilation through the library entry point
                    let mut syms = std::collections::HashMap::new();
                    let paths: Vec<String> = args.get(6).map(|s| s.split(';').filter(|x| !x.is_empty()).map(|x| x.to_string()).collect()).unwrap_or_default();
                    chialisp::classic::clvm_tools::clvmc::compile_clvm(&args[3], &args[4], &paths, &mut syms).map(|_| ())
                }
            };
            match r {
                Ok(()) => println!("OK"),
                Err(e) => println!("ERR {}", e.replace('\n', " ")),
            }
        }
        _ => {
            eprintln!("unknown mode {}", mode);
            std::process::exit(2);
        }
    }
}
