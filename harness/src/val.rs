// Transport notation <-> clvmr allocator nodes, written without any /repo code.
use clvmr::allocator::{Allocator, NodePtr, SExp};

pub fn parse(a: &mut Allocator, s: &str) -> Result<NodePtr, String> {
    let b = s.as_bytes();
    let mut i = 0usize;
    // explicit stack to survive deep nesting
    enum Fr {
        Open,
        Val(NodePtr),
    }
    let mut st: Vec<Fr> = Vec::new();
    let mut result: Option<NodePtr> = None;
    while i < b.len() {
        let c = b[i];
        match c {
            b' ' => {
                i += 1;
            }
            b'(' => {
                st.push(Fr::Open);
                i += 1;
            }
            b'x' => {
                let mut j = i + 1;
                while j < b.len() && (b[j] as char).is_ascii_hexdigit() {
                    j += 1;
                }
                let bytes = hex::decode(&s[i + 1..j]).map_err(|e| format!("hex: {}", e))?;
                let n = a.new_atom(&bytes).map_err(|e| format!("{:?}", e))?;
                i = j;
                if st.is_empty() {
                    result = Some(n);
                } else {
                    st.push(Fr::Val(n));
                }
            }
            b')' => {
                i += 1;
                let r = match st.pop() {
                    Some(Fr::Val(v)) => v,
                    _ => return Err("bad )".to_string()),
                };
                let l = match st.pop() {
                    Some(Fr::Val(v)) => v,
                    _ => return Err("bad )".to_string()),
                };
                match st.pop() {
                    Some(Fr::Open) => {}
                    _ => return Err("bad )".to_string()),
                }
                let n = a.new_pair(l, r).map_err(|e| format!("{:?}", e))?;
                if st.is_empty() {
                    result = Some(n);
                } else {
                    st.push(Fr::Val(n));
                }
            }
            _ => return Err(format!("bad char {}", c)),
        }
    }
    result.ok_or_else(|| "empty".to_string())
}

pub fn print(a: &Allocator, n: NodePtr) -> String {
    let mut out = String::new();
    enum W {
        Node(NodePtr),
        Close,
        Space,
    }
    let mut st = vec![W::Node(n)];
    while let Some(w) = st.pop() {
        match w {
            W::Close => out.push(')'),
            W::Space => out.push(' '),
            W::Node(n) => match a.sexp(n) {
                SExp::Atom => {
                    out.push('x');
                    out.push_str(&hex::encode(a.atom(n).as_ref()));
                }
                SExp::Pair(l, r) => {
                    out.push('(');
                    st.push(W::Close);
                    st.push(W::Node(r));
                    st.push(W::Space);
                    st.push(W::Node(l));
                }
            },
        }
    }
    out
}
