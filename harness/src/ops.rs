use std::rc::Rc;

use clvmr::allocator::{Allocator, NodePtr};
use clvmr::error::EvalErr;

use chialisp::classic::clvm::__type_compatibility__::{Bytes, BytesFromType, Stream};
use chialisp::classic::clvm::serialize::{sexp_from_stream, sexp_to_stream, SimpleCreateCLVMObject};
use chialisp::classic::clvm_tools::stages::stage_0::{
    DefaultProgramRunner, RunProgramOption, TRunProgram,
};

use crate::val;

pub fn err_class(e: &EvalErr) -> String {
    match e {
        EvalErr::Unimplemented(_) => "UNIMPL".to_string(),
        EvalErr::InternalError(_, m) if m.contains("unimplemented operator") => "UNIMPL".to_string(),
        EvalErr::Raise(_) => "RAISE".to_string(),
        _ => format!("FAIL {}", format!("{:?}", e).replace(['\n', '\t'], " ")),
    }
}

fn jstr(s: &str) -> String {
    let mut o = String::from("\"");
    for c in s.chars() {
        match c {
            '"' => o.push_str("\\\""),
            '\\' => o.push_str("\\\\"),
            c if (c as u32) < 0x20 => o.push_str(&format!("\\u{:04x}", c as u32)),
            c => o.push(c),
        }
    }
    o.push('"');
    o
}

pub fn run_with(a: &mut Allocator, ver: usize, p: NodePtr, e: NodePtr) -> Result<NodePtr, EvalErr> {
    let runner = DefaultProgramRunner::new();
    runner
        .run_program(
            a,
            p,
            e,
            Some(RunProgramOption {
                max_cost: None,
                pre_eval_f: None,
                strict: true,
                operators_version: ver,
            }),
        )
        .map(|r| r.1)
}

fn tables() -> String {
    use chialisp::classic::clvm::{keyword_from_atom, keyword_to_atom, OPERATORS_LATEST_VERSION};
    let mut parts = Vec::new();
    parts.push(format!("\"latest\":{}", OPERATORS_LATEST_VERSION));
    for v in 0..=3usize {
        let mut fr: Vec<(String, String)> = keyword_from_atom(v)
            .iter()
            .map(|(k, n)| (hex::encode(k), n.clone()))
            .collect();
        fr.sort();
        let mut to: Vec<(String, String)> = keyword_to_atom(v)
            .iter()
            .map(|(n, k)| (n.clone(), hex::encode(k)))
            .collect();
        to.sort();
        parts.push(format!(
            "\"from{}\":[{}]",
            v,
            fr.iter().map(|(k, n)| format!("[{},{}]", jstr(k), jstr(n))).collect::<Vec<_>>().join(",")
        ));
        parts.push(format!(
            "\"to{}\":[{}]",
            v,
            to.iter().map(|(n, k)| format!("[{},{}]", jstr(n), jstr(k))).collect::<Vec<_>>().join(",")
        ));
    }
    let prims = chialisp::compiler::prims::prims();
    parts.push(format!(
        "\"prims\":[{}]",
        prims
            .iter()
            .map(|(n, v)| format!("[{},{}]", jstr(&String::from_utf8_lossy(n)), jstr(&v.to_string())))
            .collect::<Vec<_>>()
            .join(",")
    ));
    // the HashMap the compiler and stepper actually use
    let pm = chialisp::compiler::prims::prim_map();
    let mut pmv: Vec<(String, String)> = pm
        .iter()
        .map(|(n, v)| (String::from_utf8_lossy(n).to_string(), v.to_string()))
        .collect();
    pmv.sort();
    parts.push(format!(
        "\"prim_map\":[{}]",
        pmv.iter().map(|(n, v)| format!("[{},{}]", jstr(n), jstr(v))).collect::<Vec<_>>().join(",")
    ));
    format!("{{{}}}", parts.join(","))
}

// is opcode (given as atom bytes) implemented by the runner for `ver`?  run (op) on ()
fn probe_op(ver: usize, opbytes: &[u8]) -> String {
    let mut a = Allocator::new();
    let op = a.new_atom(opbytes).unwrap();
    let prog = a.new_pair(op, NodePtr::NIL).unwrap();
    match run_with(&mut a, ver, prog, NodePtr::NIL) {
        Ok(v) => format!("OK {}", val::print(&a, v)),
        Err(e) => err_class(&e),
    }
}

pub fn dispatch(f: &[&str]) -> String {
    match f[0] {
        "tables" => tables(),
        "probe_op" => {
            let ver: usize = f[1].parse().unwrap();
            probe_op(ver, &hex::decode(f[2]).unwrap())
        }
        "run" => {
            let ver: usize = f[1].parse().unwrap();
            let mut a = Allocator::new();
            let p = val::parse(&mut a, f[2]).unwrap();
            let e = val::parse(&mut a, f[3]).unwrap();
            match run_with(&mut a, ver, p, e) {
                Ok(v) => format!("OK {}", val::print(&a, v)),
                Err(e) => err_class(&e),
            }
        }
        "ser" => {
            let mut a = Allocator::new();
            let v = val::parse(&mut a, f[1]).unwrap();
            let mut s = Stream::new(None);
            sexp_to_stream(&mut a, v, &mut s);
            format!("OK {}", hex::encode(s.get_value().data()))
        }
        "cser" => {
            let mut a = Allocator::new();
            let v = val::parse(&mut a, f[1]).unwrap();
            match clvmr::serde::node_to_bytes_limit(&a, v, 400_000_000) {
                Ok(b) => format!("OK {}", hex::encode(b)),
                Err(e) => format!("ERR {:?}", e),
            }
        }
        "deser" => {
            let mut a = Allocator::new();
            let bytes = hex::decode(f[1]).unwrap();
            let mut s = Stream::new(Some(Bytes::new(Some(BytesFromType::Raw(bytes)))));
            match sexp_from_stream(&mut a, &mut s, Box::new(SimpleCreateCLVMObject {})) {
                Ok(r) => format!("OK {} {}", val::print(&a, r.1), s.get_seek()),
                Err(_) => "ERR".to_string(),
            }
        }
        "cdeser" => {
            let mut a = Allocator::new();
            let bytes = hex::decode(f[1]).unwrap();
            match clvmr::serde::node_from_bytes(&mut a, &bytes) {
                Ok(r) => format!("OK {} 0", val::print(&a, r)),
                Err(_) => "ERR".to_string(),
            }
        }
        "compile" => {
            // compile\t<optimize 0|1>\t<search paths joined by ;>\t<hex of source>\t[filename]
            let do_opt = f[1] == "1";
            let paths: Vec<String> = f[2].split(';').filter(|s| !s.is_empty()).map(|s| s.to_string()).collect();
            let text = String::from_utf8_lossy(&hex::decode(f[3]).unwrap()).to_string();
            let fname = if f.len() > 4 { f[4] } else { "*verif*" };
            compile_text(do_opt, &paths, &text, fname)
        }
        "steptext" => {
            // stepper on text program / text args (names allowed), optional step limit
            let prog = String::from_utf8_lossy(&hex::decode(f[1]).unwrap()).to_string();
            let args = String::from_utf8_lossy(&hex::decode(f[2]).unwrap()).to_string();
            let mut a = Allocator::new();
            let runner = rc_runner();
            match chialisp::compiler::clvm::parse_and_run(&mut a, runner, "*verif*", &prog, &args, Some(100000)) {
                Ok(v) => match chialisp::compiler::clvm::convert_to_clvm_rs(&mut a, v) {
                    Ok(n) => format!("OK {}", val::print(&a, n)),
                    Err(_) => "ERR convert".to_string(),
                },
                Err(e) => format!("FAIL {}", runfailure_text(&e)),
            }
        }
        // ---- C07: rich <-> clvm conversions, hashes, equality
        "r_to_clvm" => {
            let _g = chialisp::compiler::clvm::NewStyleIntConversion::new(f[1] == "1");
            let r = crate::rich::parse(f[2]).unwrap();
            let mut a = Allocator::new();
            match chialisp::compiler::clvm::convert_to_clvm_rs(&mut a, r) {
                Ok(n) => format!("OK {}", val::print(&a, n)),
                Err(e) => format!("ERR {}", runfailure_text(&e)),
            }
        }
        "r_from_clvm" => {
            let _g = chialisp::compiler::clvm::NewStyleIntConversion::new(f[1] == "1");
            let mut a = Allocator::new();
            let v = val::parse(&mut a, f[2]).unwrap();
            match chialisp::compiler::clvm::convert_from_clvm_rs(&mut a, crate::rich::loc(), v) {
                Ok(r) => format!("OK {}", crate::rich::print(&r)),
                Err(e) => format!("ERR {}", runfailure_text(&e)),
            }
        }
        "r_hash" => {
            let _g = chialisp::compiler::clvm::NewStyleIntConversion::new(f[1] == "1");
            let r = crate::rich::parse(f[2]).unwrap();
            format!("OK {}", hex::encode(chialisp::compiler::clvm::sha256tree(r)))
        }
        "c_hash" => {
            let mut a = Allocator::new();
            let v = val::parse(&mut a, f[1]).unwrap();
            format!("OK {}", chialisp::classic::clvm_tools::sha256tree::sha256tree(&mut a, v).hex())
        }
        "clvmr_hash" => {
            let mut a = Allocator::new();
            let v = val::parse(&mut a, f[1]).unwrap();
            let b = clvmr::serde::node_to_bytes(&a, v).unwrap();
            let mut cur = std::io::Cursor::new(b.as_slice());
            match clvmr::serde::tree_hash_from_stream(&mut cur) {
                Ok(h) => format!("OK {}", hex::encode(h)),
                Err(e) => format!("ERR {:?}", e),
            }
        }
        "r_eq" => {
            let _g = chialisp::compiler::clvm::NewStyleIntConversion::new(true);
            let x = crate::rich::parse(f[1]).unwrap();
            let y = crate::rich::parse(f[2]).unwrap();
            format!("OK {}", if *x == *y { 1 } else { 0 })
        }
        "r_hashstream" => {
            use std::hash::{Hash, Hasher};
            struct Rec(Vec<u8>);
            impl Hasher for Rec {
                fn finish(&self) -> u64 {
                    0
                }
                fn write(&mut self, bytes: &[u8]) {
                    self.0.extend_from_slice(bytes);
                    self.0.push(0xfe); // separator between writes, for readability only
                }
            }
            let x = crate::rich::parse(f[1]).unwrap();
            let mut h = Rec(Vec::new());
            x.hash(&mut h);
            format!("OK {}", hex::encode(h.0))
        }
        "opt" => {
            let mut a = Allocator::new();
            let p = val::parse(&mut a, f[1]).unwrap();
            match chialisp::classic::clvm_tools::stages::stage_2::optimize::optimize_sexp(&mut a, p, rc_runner()) {
                Ok(n) => format!("OK {}", val::print(&a, n)),
                Err(_) => "ERR".to_string(),
            }
        }
        "sub_args" => {
            let mut a = Allocator::new();
            let p = val::parse(&mut a, f[1]).unwrap();
            let q = val::parse(&mut a, f[2]).unwrap();
            match chialisp::classic::clvm_tools::stages::stage_2::optimize::sub_args(&mut a, p, q) {
                Ok(n) => format!("OK {}", val::print(&a, n)),
                Err(_) => "ERR".to_string(),
            }
        }
        // ---- C06: the stepping evaluator
        "step" => {
            // step <mode> <rich prog> <rich env> [limit]: compiler::clvm::run on rich values
            let _g = chialisp::compiler::clvm::NewStyleIntConversion::new(f[1] == "1");
            let p = crate::rich::parse(f[2]).unwrap();
            let e = crate::rich::parse(f[3]).unwrap();
            let limit: usize = if f.len() > 4 { f[4].parse().unwrap() } else { 20000 };
            let mut a = Allocator::new();
            match chialisp::compiler::clvm::run(&mut a, rc_runner(), chialisp::compiler::prims::prim_map(), p, e, None, Some(limit)) {
                Ok(v) => match chialisp::compiler::clvm::convert_to_clvm_rs(&mut a, v) {
                    Ok(n) => format!("OK {}", val::print(&a, n)),
                    Err(_) => "ERR convert".to_string(),
                },
                Err(e) => {
                    let t = runfailure_text(&e);
                    if t.contains("timeout") { "LIMIT".to_string() } else if t.starts_with("RunExn") { "RAISE".to_string() } else { format!("FAIL {}", t) }
                }
            }
        }
        // ---- C18: dependency listing
        "deps" => {
            // deps <search paths ;> <hex source> <filename>
            use chialisp::compiler::compiler::DefaultCompilerOpts;
            use chialisp::compiler::comptypes::CompilerOpts;
            let paths: Vec<String> = f[1].split(';').filter(|s| !s.is_empty()).map(|s| s.to_string()).collect();
            let text = String::from_utf8_lossy(&hex::decode(f[2]).unwrap()).to_string();
            let fname = f[3];
            let opts = Rc::new(DefaultCompilerOpts::new(fname)).set_search_paths(&paths);
            match chialisp::compiler::preprocessor::gather_dependencies(opts, fname, &text) {
                Ok(l) => format!(
                    "OK {}",
                    l.iter().map(|d| hex::encode(&d.name)).collect::<Vec<_>>().join(",")
                ),
                Err(e) => format!("ERR {} {}", e.0, e.1.replace(['\n', '\t'], " ")),
            }
        }
        // ---- text <-> CLVM (C09, C11)
        "assemble" => {
            let text = String::from_utf8_lossy(&hex::decode(f[1]).unwrap()).to_string();
            let mut a = Allocator::new();
            match chialisp::classic::clvm_tools::binutils::assemble(&mut a, &text) {
                Ok(n) => format!("OK {}", val::print(&a, n)),
                Err(e) => format!("ERR {:?}", e).replace(['\n', '\t'], " "),
            }
        }
        "disassemble" => {
            // disassemble <version|-> V  -> hex of text
            let mut a = Allocator::new();
            let v = val::parse(&mut a, f[2]).unwrap();
            let ver = if f[1] == "-" { None } else { Some(f[1].parse::<usize>().unwrap()) };
            format!("OK {}", hex::encode(chialisp::classic::clvm_tools::binutils::disassemble(&a, v, ver)))
        }
        "parse_modern" => {
            // parse text with the modern reader, convert the first form to CLVM (mode given)
            let _g = chialisp::compiler::clvm::NewStyleIntConversion::new(f[1] == "1");
            let text = hex::decode(f[2]).unwrap();
            match chialisp::compiler::sexp::parse_sexp(chialisp::compiler::srcloc::Srcloc::start("*verif*"), text.iter().copied()) {
                Ok(forms) => {
                    if forms.len() != 1 {
                        format!("ERR {} forms", forms.len())
                    } else {
                        let mut a = Allocator::new();
                        match chialisp::compiler::clvm::convert_to_clvm_rs(&mut a, forms[0].clone()) {
                            Ok(n) => format!("OK {}", val::print(&a, n)),
                            Err(e) => format!("ERR {}", runfailure_text(&e)),
                        }
                    }
                }
                Err(e) => format!("ERR {} {}", e.0, e.1.replace(['\n', '\t'], " ")),
            }
        }
        "print_modern" => {
            // rich value -> text of the modern printer (hex)
            let r = crate::rich::parse(f[1]).unwrap();
            format!("OK {}", hex::encode(r.to_string()))
        }
        // ---- C05: process-global state
        "setctr" => {
            let n: usize = f[1].parse().unwrap();
            chialisp::compiler::gensym::ARGNAME_CTR.store(n, std::sync::atomic::Ordering::SeqCst);
            "OK".to_string()
        }
        "getctr" => format!("OK {}", chialisp::compiler::gensym::ARGNAME_CTR.load(std::sync::atomic::Ordering::SeqCst)),
        "intmode" => {
            // set the per-thread integer-conversion mode and leave it set (as a previous user of the thread might)
            let g = chialisp::compiler::clvm::NewStyleIntConversion::new(f[1] == "1");
            std::mem::forget(g);
            "OK".to_string()
        }
        "getintmode" => {
            // observe the mode: convert the atom [0] (Integer 0 in legacy mode, hex string in the fixed mode)
            let mut a = Allocator::new();
            let z = a.new_atom(&[0]).unwrap();
            match chialisp::compiler::clvm::convert_from_clvm_rs(&mut a, crate::rich::loc(), z) {
                Ok(r) => format!("OK {}", if matches!(&*r, chialisp::compiler::sexp::SExp::Integer(_, _)) { 0 } else { 1 }),
                Err(_) => "ERR".to_string(),
            }
        }
        "threads" => {
            // threads <k> <opt> <paths> <hexsrc>: compile the same text in k threads at once
            let k: usize = f[1].parse().unwrap();
            let opt = f[2] == "1";
            let paths: Vec<String> = f[3].split(';').filter(|s| !s.is_empty()).map(|s| s.to_string()).collect();
            let text = String::from_utf8_lossy(&hex::decode(f[4]).unwrap()).to_string();
            let mut hs = Vec::new();
            for _ in 0..k {
                let (p, t) = (paths.clone(), text.clone());
                hs.push(std::thread::spawn(move || compile_text(opt, &p, &t, "*verif*")));
            }
            let outs: Vec<String> = hs.into_iter().map(|h| h.join().unwrap_or_else(|_| "PANIC thread".to_string())).collect();
            outs.join(" ||| ")
        }
        // ---- C15: locations
        "parse_locs" | "push_locs" => {
            // parse text (whole, or one byte at a time through ParsePartialResult) and print every node with its location:
            // K<kind> line col uline ucol <payload hex>; lists as L ... ( children )
            use chialisp::compiler::sexp::{parse_sexp, ParsePartialResult, SExp};
            use chialisp::compiler::srcloc::Srcloc;
            let text = hex::decode(f[1]).unwrap();
            let start = Srcloc::start("*verif*");
            let res = if f[0] == "parse_locs" {
                parse_sexp(start, text.iter().copied())
            } else {
                let mut p = ParsePartialResult::new(start);
                let mut err = None;
                for b in text.iter() {
                    if let Err(e) = p.push(*b) {
                        err = Some(e);
                        break;
                    }
                }
                match err {
                    Some(e) => Err(e),
                    None => p.finalize(),
                }
            };
            fn loc(l: &Srcloc) -> String {
                match &l.until {
                    Some(u) => format!("{} {} {} {}", l.line, l.col, u.line, u.col),
                    None => format!("{} {} - -", l.line, l.col),
                }
            }
            fn show(v: &SExp, out: &mut String) {
                match v {
                    SExp::Nil(l) => out.push_str(&format!("[N {}]", loc(l))),
                    SExp::Integer(l, i) => out.push_str(&format!("[I {} {}]", loc(l), i)),
                    SExp::QuotedString(l, q, b) => out.push_str(&format!("[Q {} {:02x} {}]", loc(l), q, hex::encode(b))),
                    SExp::Atom(l, b) => out.push_str(&format!("[A {} {}]", loc(l), hex::encode(b))),
                    SExp::Cons(l, a, b) => {
                        out.push_str(&format!("[C {} ", loc(l)));
                        show(a, out);
                        show(b, out);
                        out.push(']');
                    }
                }
            }
            match res {
                Ok(forms) => {
                    let mut out = String::from("OK ");
                    for fm in forms.iter() {
                        show(fm, &mut out);
                        out.push(' ');
                    }
                    out
                }
                Err(e) => format!("ERR {} | {}", loc(&e.0), e.1.replace(['\n', '\t'], " ")),
            }
        }
        // ---- C12: debugger rows
        "cldbrun" => {
            // cldbrun <mode> <rich prog> <rich env> [flags]: step CldbRun to the end, rows as JSON
            use chialisp::compiler::cldb::{CldbNoOverride, CldbRun, CldbRunEnv};
            let _g = chialisp::compiler::clvm::NewStyleIntConversion::new(f[1] == "1");
            let p = crate::rich::parse(f[2]).unwrap();
            let e = crate::rich::parse(f[3]).unwrap();
            let mut a = Allocator::new();
            let env = CldbRunEnv::new(None, Rc::new(vec![]), Box::new(CldbNoOverride::new()));
            let step = chialisp::compiler::clvm::start_step(p, e);
            let mut run = CldbRun::new(rc_runner(), chialisp::compiler::prims::prim_map(), Box::new(env), step);
            if f.len() > 4 {
                run.set_flags(f[4].parse().unwrap());
            }
            let mut rows = Vec::new();
            let mut n = 0;
            while !run.is_ended() && n < 200000 {
                n += 1;
                if let Some(r) = run.step(&mut a) {
                    rows.push(format!(
                        "{{{}}}",
                        r.iter().map(|(k, v)| format!("{}:{}", jstr(k), jstr(v))).collect::<Vec<_>>().join(",")
                    ));
                }
            }
            format!("{} [{}]", if run.is_ended() { "ENDED" } else { "LIMIT" }, rows.join(","))
        }
        "repl" => {
            // repl <hex of lines separated by newline>: feed lines to a Repl, report each outcome briefly
            use chialisp::compiler::compiler::DefaultCompilerOpts;
            use chialisp::compiler::repl::Repl;
            let text = String::from_utf8_lossy(&hex::decode(f[1]).unwrap()).to_string();
            let mut opts: Rc<dyn chialisp::compiler::comptypes::CompilerOpts> = Rc::new(DefaultCompilerOpts::new("*repl*"));
            // optional second field: the name of a dialect pseudo-file (e.g. *standard-cl-23*) to run the REPL under
            if f.len() > 2 && !f[2].is_empty() {
                if let Some(d) = chialisp::compiler::dialect::KNOWN_DIALECTS.get(f[2]) {
                    opts = opts.set_dialect(d.accepted.clone());
                }
            }
            let mut repl = Repl::new(opts, rc_runner());
            let mut a = Allocator::new();
            let mut outs = Vec::new();
            for line in text.split('\n') {
                match repl.process_line(&mut a, line.to_string()) {
                    Ok(Some(b)) => outs.push(format!("V {}", b.to_sexp())),
                    Ok(None) => outs.push("-".to_string()),
                    Err(e) => outs.push(format!("E {} {}", e.0, e.1)),
                }
            }
            format!("OK {}", outs.join(" || ").replace(['\n', '\t'], " "))
        }
        "unused" => {
            use chialisp::compiler::compiler::DefaultCompilerOpts;
            let text = String::from_utf8_lossy(&hex::decode(f[1]).unwrap()).to_string();
            let opts = Rc::new(DefaultCompilerOpts::new("*verif*"));
            match chialisp::classic::clvm_tools::debug::check_unused(opts, &text) {
                Ok((ok, msg)) => format!("OK {} {}", ok, msg.replace(['\n', '\t'], " ")),
                Err(e) => format!("ERR {} {}", e.0, e.1.replace(['\n', '\t'], " ")),
            }
        }
        "toposort" => {
            // toposort <items>: items separated by '|', each "n1,n2;h1,h2" (needs;has); the generic util::toposort
            use std::collections::HashSet;
            let parse_set = |t: &str| -> HashSet<u32> { t.split(',').filter(|x| !x.is_empty()).map(|x| x.parse().unwrap()).collect() };
            let items: Vec<(HashSet<u32>, HashSet<u32>)> = if f[1].is_empty() { vec![] } else {
                f[1].split('|').map(|it| { let mut p = it.split(';'); (parse_set(p.next().unwrap_or("")), parse_set(p.next().unwrap_or(""))) }).collect()
            };
            match chialisp::util::toposort(&items, (), |_possible, it: &(HashSet<u32>, HashSet<u32>)| Ok(it.0.clone()), |it| it.1.clone()) {
                Ok(order) => format!("OK {}", order.iter().map(|x| x.index.to_string()).collect::<Vec<_>>().join(",")),
                Err(()) => "DEADLOCK".to_string(),
            }
        }
        "assign_stages" => {
            // assign_stages <hex of an (assign ...) form>: frontend parse, toposort_assign_bindings, hoist_assign_form;
            // reports the binding order and the stages of parallel lets, outermost first
            use chialisp::compiler::compiler::DefaultCompilerOpts;
            use chialisp::compiler::comptypes::{BindingPattern, BodyForm, LetFormKind};
            use chialisp::compiler::frontend::compile_bodyform;
            use chialisp::compiler::sexp::parse_sexp;
            use chialisp::compiler::srcloc::Srcloc;
            use std::borrow::Borrow;
            let text = String::from_utf8_lossy(&hex::decode(f[1]).unwrap()).to_string();
            let opts = Rc::new(DefaultCompilerOpts::new("*verif*"));
            let forms = match parse_sexp(Srcloc::start("*verif*"), text.bytes()) {
                Ok(x) => x,
                Err(e) => return format!("ERR parse {}", e.1),
            };
            let bf = match compile_bodyform(opts, forms[0].clone()) {
                Ok(x) => x,
                Err(e) => return format!("ERR frontend {}", e.1),
            };
            let pat = |p: &BindingPattern| match p {
                BindingPattern::Name(n) => String::from_utf8_lossy(n).to_string(),
                BindingPattern::Complex(s) => s.to_string(),
            };
            if let BodyForm::Let(LetFormKind::Assign, letdata) = &bf {
                let order = match chialisp::compiler::codegen::toposort_assign_bindings(&letdata.loc, &letdata.bindings) {
                    Ok(o) => o.iter().map(|x| x.index.to_string()).collect::<Vec<_>>().join(","),
                    Err(e) => return format!("DEADLOCK {}", e.1),
                };
                match chialisp::compiler::codegen::hoist_assign_form(letdata) {
                    Ok(mut cur) => {
                        let mut stages = Vec::new();
                        loop {
                            let next = if let BodyForm::Let(LetFormKind::Parallel, ld) = &cur {
                                stages.push(ld.bindings.iter().map(|b| pat(&b.pattern)).collect::<Vec<_>>().join(","));
                                let inner: &BodyForm = ld.body.borrow();
                                inner.clone()
                            } else {
                                break;
                            };
                            cur = next;
                        }
                        format!("OK {} # {}", order, stages.join("|"))
                    }
                    Err(e) => format!("DEADLOCK {}", e.1),
                }
            } else {
                "ERR not an assign form".to_string()
            }
        }
        other => format!("BADOP {}", other),
    }
}

pub fn runfailure_text(e: &chialisp::compiler::runtypes::RunFailure) -> String {
    use chialisp::compiler::runtypes::RunFailure;
    match e {
        RunFailure::RunErr(l, m) => format!("RunErr {} {}", l, m).replace(['\n', '\t'], " "),
        RunFailure::RunExn(l, v) => format!("RunExn {} {}", l, v).replace(['\n', '\t'], " "),
    }
}

pub fn compile_text(do_opt: bool, paths: &[String], text: &str, fname: &str) -> String {
    use chialisp::classic::clvm_tools::clvmc::compile_clvm_text_maybe_opt;
    use chialisp::compiler::compiler::DefaultCompilerOpts;
    use chialisp::compiler::comptypes::CompilerOpts;
    let mut a = Allocator::new();
    let mut syms = std::collections::HashMap::new();
    let opts = Rc::new(DefaultCompilerOpts::new(fname)).set_search_paths(paths);
    match compile_clvm_text_maybe_opt(&mut a, do_opt, opts.clone(), &mut syms, text, fname, false) {
        Ok(n) => {
            let mut sv: Vec<(String, String)> = syms.into_iter().collect();
            sv.sort();
            format!(
                "OK {}\t{{{}}}",
                val::print(&a, n),
                sv.iter().map(|(k, v)| format!("{}:{}", jstr(k), jstr(v))).collect::<Vec<_>>().join(",")
            )
        }
        Err(e) => format!("ERR {}", e.format(&a, opts).replace(['\n', '\t'], " ")),
    }
}

pub fn rc_runner() -> Rc<dyn TRunProgram> {
    Rc::new(DefaultProgramRunner::new())
}
