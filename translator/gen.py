#!/usr/bin/env python3
"""Translator: regenerates coq/Gen/*.v from /repo's *current* source text.

It is deliberately shape-driven: each extractor looks for the syntactic shape the
tables / constants have in the source (a const array of struct literals, a vec! of
tuples, a match with integer arms, an if/else-if chain on `size`) and fails loudly
(exit 2, message on stderr) when that shape is gone.  The output is cross-checked
at run time by the harness (runtime tables vs Gen tables), so a translator bug shows
as a disagreement.
"""
import os, re, sys, glob

REPO = os.environ.get("VERIF_REPO", "/repo")
OUT = os.path.join(os.path.dirname(os.path.abspath(__file__)), "..", "coq", "Gen")


class TranslateError(Exception):
    pass


def skip_literal(src, i):
    """src[i] is a double quote or a single quote: return the index just past the literal (or i+1 for a lifetime)"""
    n = len(src)
    if src[i] == '"':
        j = i + 1
        while j < n and src[j] != '"':
            if src[j] == '\\':
                j += 1
            j += 1
        return j + 1
    # single quote: char literal or lifetime
    if i + 1 < n and src[i + 1] == '\\':
        j = src.find("'", i + 3)
        if 0 < j <= i + 12:
            return j + 1
        return i + 1
    if i + 2 < n and src[i + 2] == "'":
        return i + 3
    return i + 1


def strip_comments(src):
    # remove // line comments and /* */ block comments, leaving string and char literals alone
    out = []
    i = 0
    n = len(src)
    while i < n:
        c = src[i]
        if c == '"' or c == "'":
            j = skip_literal(src, i)
            out.append(src[i:j])
            i = j
        elif src.startswith("//", i):
            j = src.find("\n", i)
            if j < 0:
                j = n
            i = j
        elif src.startswith("/*", i):
            j = src.find("*/", i)
            i = n if j < 0 else j + 2
        else:
            out.append(c)
            i += 1
    return "".join(out)


def read(rel):
    p = os.path.join(REPO, rel)
    try:
        with open(p, encoding="utf-8") as f:
            return strip_comments(f.read())
    except OSError as e:
        raise TranslateError("cannot read %s: %s" % (p, e))


def balanced(src, start, open_c, close_c):
    """src[start] == open_c; return index just past the matching close."""
    assert src[start] == open_c, (src[start:start + 20], open_c)
    depth = 0
    i = start
    n = len(src)
    while i < n:
        c = src[i]
        if c == '"' or c == "'":
            i = skip_literal(src, i)
            continue
        if c == open_c:
            depth += 1
        elif c == close_c:
            depth -= 1
            if depth == 0:
                return i + 1
        i += 1
    raise TranslateError("unbalanced %s" % open_c)


def parse_int(tok):
    tok = tok.strip().replace("_", "")
    tok = re.sub(r"(u8|u16|u32|u64|usize|i32|i64)$", "", tok)
    if tok.startswith("0x"):
        return int(tok, 16)
    return int(tok)


def coq_str(s):
    return '"' + s.replace('"', '""') + '"'


def coq_nlist(xs):
    return "[" + "; ".join(str(x) for x in xs) + "]"


# ---------------------------------------------------------------- op tables

def kw_pairs(src):
    m = re.search(r"const\s+KW_PAIRS\s*:\s*\[\s*KwAtomPair\s*;\s*(\d+)\s*\]\s*=\s*\[", src)
    if not m:
        raise TranslateError("KW_PAIRS const array not found in classic/clvm/mod.rs")
    declared = int(m.group(1))
    end = balanced(src, m.end() - 1, "[", "]")
    body = src[m.end():end - 1]
    rows = []
    for rm in re.finditer(r"KwAtomPair\s*\{(.*?)\}", body, re.S):
        f = rm.group(1)
        v = re.search(r"\bv\s*:\s*&\s*\[(.*?)\]", f, re.S)
        n = re.search(r'\bn\s*:\s*"((?:[^"\\]|\\.)*)"', f)
        ver = re.search(r"\bversion\s*:\s*([0-9a-fx_]+)", f)
        if not (v and n and ver):
            raise TranslateError("KwAtomPair literal of unexpected shape: %r" % f)
        bs = [parse_int(t) for t in v.group(1).split(",") if t.strip()]
        rows.append((bs, n.group(1), parse_int(ver.group(1))))
    if len(rows) != declared:
        raise TranslateError("KW_PAIRS: declared %d rows, parsed %d" % (declared, len(rows)))
    return rows


def kw_tables(src):
    """The lazy_static tables: (direction, k, comparison, bound), in source order, and dispatch."""
    tabs = []
    for m in re.finditer(r"pub\s+static\s+ref\s+KEYWORD_(FROM|TO)_ATOM_(\d+)\s*:[^=]*=\s*\{", src):
        end = balanced(src, m.end() - 1, "{", "}")
        body = src[m.end():end]
        fm = re.search(r"KW_PAIRS\s*\.\s*iter\s*\(\s*\)\s*\.\s*filter\s*\(\s*\|\s*p\s*\|\s*p\s*\.\s*version\s*(==|<=|<|>=|>|!=)\s*(\d+)\s*\)", body)
        if not fm:
            raise TranslateError("table %s: filter shape changed" % m.group(0))
        ins = re.search(r"result\s*\.\s*insert\s*\(\s*pair\s*\.\s*(\w)\s*\.\s*to_\w+\s*\(\s*\)\s*,\s*pair\s*\.\s*(\w)\s*\.\s*to_\w+\s*\(\s*\)\s*\)", body)
        if not ins:
            raise TranslateError("table %s: insert shape changed" % m.group(0))
        want = ("v", "n") if m.group(1) == "FROM" else ("n", "v")
        if (ins.group(1), ins.group(2)) != want:
            raise TranslateError("table KEYWORD_%s_ATOM_%s inserts (%s,%s)" % (m.group(1), m.group(2), ins.group(1), ins.group(2)))
        tabs.append((m.group(1), int(m.group(2)), fm.group(1), int(fm.group(2))))
    if not tabs:
        raise TranslateError("no KEYWORD_*_ATOM_* tables found")
    disp = {}
    for d, fn in (("FROM", "keyword_from_atom"), ("TO", "keyword_to_atom")):
        m = re.search(r"pub\s+fn\s+%s\s*\(\s*version\s*:\s*usize\s*\)[^{]*\{" % fn, src)
        if not m:
            raise TranslateError("%s not found" % fn)
        end = balanced(src, m.end() - 1, "{", "}")
        body = src[m.end():end]
        arms = re.findall(r"(\d+|_)\s*=>\s*&\s*KEYWORD_(FROM|TO)_ATOM_(\d+)", body)
        if not arms:
            raise TranslateError("%s: match shape changed" % fn)
        for a in arms:
            if a[1] != d:
                raise TranslateError("%s dispatches to a %s table" % (fn, a[1]))
        disp[d] = [(None if a[0] == "_" else int(a[0]), int(a[2])) for a in arms]
    m = re.search(r"pub\s+const\s+OPERATORS_LATEST_VERSION\s*:\s*usize\s*=\s*(\d+)\s*;", src)
    if not m:
        raise TranslateError("OPERATORS_LATEST_VERSION not found")
    return tabs, disp, int(m.group(1))


def modern_prims(src):
    m = re.search(r"pub\s+fn\s+prims\s*\(\s*\)[^{]*\{", src)
    if not m:
        raise TranslateError("prims() not found")
    end = balanced(src, m.end() - 1, "{", "}")
    body = src[m.end():end]
    vm = re.search(r"vec!\s*\[", body)
    if not vm:
        raise TranslateError("prims(): vec! literal not found")
    vend = balanced(body, vm.end() - 1, "[", "]")
    vbody = body[vm.end():vend - 1]
    rows = []
    i = 0
    while True:
        j = vbody.find("(", i)
        if j < 0:
            break
        k = balanced(vbody, j, "(", ")")
        tup = vbody[j:k]
        tm = re.match(r'\(\s*"((?:[^"\\]|\\.)*)"\s*\.\s*as_bytes\s*\(\s*\)\s*\.\s*to_vec\s*\(\s*\)\s*,\s*SExp::Integer\s*\(\s*primloc(?:\s*\.\s*clone\s*\(\s*\))?\s*,\s*([0-9a-fA-Fx_]+?)(?:_?u32|_?u64|_?i32)?\s*\.\s*to_bigint\s*\(\s*\)\s*\.\s*unwrap\s*\(\s*\)\s*,?\s*\)\s*,?\s*\)$', tup, re.S)
        if not tm:
            raise TranslateError("prims(): tuple of unexpected shape: %r" % tup[:120])
        rows.append((tm.group(1), parse_int(tm.group(2))))
        i = k
    if not rows:
        raise TranslateError("prims(): no rows")
    return rows


def split_top(s):
    """split on commas not nested in (), {} or []"""
    out, depth, cur = [], 0, []
    for c in s:
        if c in "({[":
            depth += 1
        elif c in ")}]":
            depth -= 1
        if c == "," and depth == 0:
            out.append("".join(cur))
            cur = []
        else:
            cur.append(c)
    out.append("".join(cur))
    # an arm whose body is a block has no trailing comma: split "{...}\n pattern =>" too
    res = []
    for a in out:
        m = re.match(r"^(\s*\S[^{]*=>\s*\{.*?\})\s*(\S.*)$", a, re.S)
        if m and balanced_ok(m.group(1)):
            res.append(m.group(1)); res.append(m.group(2))
        else:
            res.append(a)
    return res


def balanced_ok(s):
    return s.count("{") == s.count("}")


def dialect_arms(src, impl_name, where):
    m = re.search(r"impl\s+Dialect\s+for\s+%s\s*\{" % impl_name, src)
    if not m:
        raise TranslateError("impl Dialect for %s not found in %s" % (impl_name, where))
    end = balanced(src, m.end() - 1, "{", "}")
    body = src[m.end():end]
    arms = []
    fm = re.search(r"fn\s+op\s*\(", body)
    if not fm:
        raise TranslateError("%s: fn op not found" % impl_name)
    fb = body.index("{", balanced(body, fm.end() - 1, "(", ")"))
    fbody = body[fb:balanced(body, fb, "{", "}")]
    for mm in re.finditer(r"let\s+f\s*=\s*match\s+\w+\s*\{", fbody):
        mend = balanced(fbody, mm.end() - 1, "{", "}")
        for arm in split_top(fbody[mm.end():mend - 1]):
            arm = arm.strip()
            if not arm:
                continue
            am = re.match(r"^(0x[0-9a-fA-F_]+|\d+|_)\s*(?:if\s*\(\s*flags\s*&\s*(\w+)\s*\)\s*!=\s*0\s*)?=>\s*(.*)$", arm, re.S)
            if not am:
                raise TranslateError("%s: operator arm of unexpected shape: %r" % (impl_name, arm[:80]))
            if am.group(1) == "_":
                if "unknown_operator" not in am.group(3):
                    raise TranslateError("%s: wildcard arm no longer goes to unknown_operator" % impl_name)
                continue
            fn = re.match(r"^(op_\w+)$", am.group(3).strip())
            if not fn:
                raise TranslateError("%s: arm %s does not name an op_ function" % (impl_name, am.group(1)))
            arms.append((parse_int(am.group(1)), am.group(2), fn.group(1)))
    kws = {}
    for kw in ("quote_kw", "apply_kw", "softfork_kw"):
        km = re.search(r"fn\s+%s\s*\(\s*&self\s*\)\s*->\s*u32\s*\{\s*(\d+)\s*\}" % kw, body)
        if not km:
            raise TranslateError("%s.%s not found" % (impl_name, kw))
        kws[kw] = int(km.group(1))
    if not arms:
        raise TranslateError("%s: no operator arms" % impl_name)
    return arms, kws


def runner_dispatch(src):
    m = re.search(r"impl\s+TRunProgram\s+for\s+DefaultProgramRunner\s*\{", src)
    if not m:
        raise TranslateError("impl TRunProgram for DefaultProgramRunner not found")
    end = balanced(src, m.end() - 1, "{", "}")
    body = src[m.end():end]
    mm = re.search(r"match\s+operators_version\s*\{", body)
    if not mm:
        raise TranslateError("runner: match operators_version not found")
    mend = balanced(body, mm.end() - 1, "{", "}")
    mb = body[mm.end():mend]
    arms = []
    for am in re.finditer(r"(\d+|_)\s*=>\s*run_program_with_pre_eval_dialect\s*\(\s*allocator\s*,\s*&\s*(\w+)\s*::\s*new\s*\(([^)]*)\)", mb):
        flags = [f.strip() for f in am.group(3).split("|")]
        arms.append((None if am.group(1) == "_" else int(am.group(1)), am.group(2), flags))
    if not arms:
        raise TranslateError("runner: no dispatch arms")
    dm = re.search(r"unwrap_or\s*\(\s*OPERATORS_LATEST_VERSION\s*\)", body)
    if not dm:
        raise TranslateError("runner: default operators_version is no longer OPERATORS_LATEST_VERSION")
    return arms


def find_clvmr():
    lock = open(os.path.join(REPO, "Cargo.lock")).read()
    m = re.search(r'name = "clvmr"\nversion = "([^"]+)"', lock)
    if not m:
        raise TranslateError("clvmr not in Cargo.lock")
    ver = m.group(1)
    cands = glob.glob(os.path.expanduser("~/.cargo/registry/src/*/clvmr-%s" % ver))
    if not cands:
        raise TranslateError("clvmr-%s source not in the cargo registry" % ver)
    return ver, cands[0]


def gen_optables():
    src = read("src/classic/clvm/mod.rs")
    rows = kw_pairs(src)
    tabs, disp, latest = kw_tables(src)
    prims = modern_prims(read("src/compiler/prims.rs"))
    st0 = read("src/classic/clvm_tools/stages/stage_0.rs")
    orig_arms, orig_kws = dialect_arms(st0, "OriginalDialect", "stage_0.rs")
    runner = runner_dispatch(st0)
    ver, cdir = find_clvmr()
    with open(os.path.join(cdir, "src", "chia_dialect.rs")) as f:
        chia_src = strip_comments(f.read())
    chia_arms, chia_kws = dialect_arms(chia_src, "ChiaDialect", "clvmr chia_dialect.rs")

    L = []
    L.append("(* GENERATED by /verif/translator/gen.py from /repo's current source. Do not edit. *)")
    L.append("From Coq Require Import List NArith ZArith String.")
    L.append("From CV Require Import Base.Prelude.")
    L.append("Import ListNotations.")
    L.append("Open Scope N_scope.")
    L.append("")
    L.append("(* classic/clvm/mod.rs KW_PAIRS: (opcode bytes, name, version) in source order *)")
    L.append("Definition kw_pairs : list (list N * list N * N) := [")
    L.append(";\n".join("  (%s, str %s, %d)" % (coq_nlist(b), coq_str(n), v) for b, n, v in rows))
    L.append("].")
    L.append("")
    L.append("Definition operators_latest_version : N := %d." % latest)
    L.append("")
    cmpname = {"==": "CmpEq", "<=": "CmpLe", "<": "CmpLt", ">=": "CmpGe", ">": "CmpGt", "!=": "CmpNe"}
    L.append("(* the lazy_static tables: (is_from_atom, index, filter comparison, bound) *)")
    L.append("Definition kw_table_defs : list (bool * N * cmp_kind * N) := [")
    L.append(";\n".join("  (%s, %d, %s, %d)" % ("true" if d == "FROM" else "false", k, cmpname[c], b) for d, k, c, b in tabs))
    L.append("].")
    for d, nm in (("FROM", "from_atom_dispatch"), ("TO", "to_atom_dispatch")):
        L.append("(* keyword_%s: match arms version => table index; None = wildcard *)" % ("from_atom" if d == "FROM" else "to_atom"))
        L.append("Definition %s : list (option N * N) := [%s]." % (nm, "; ".join("(%s, %d)" % ("None" if a is None else "Some %d" % a, k) for a, k in disp[d])))
    L.append("")
    L.append("(* compiler/prims.rs prims(): (name, opcode as integer) in source order *)")
    L.append("Definition modern_prims : list (list N * Z) := [")
    L.append(";\n".join("  (str %s, %d%%Z)" % (coq_str(n), z) for n, z in prims))
    L.append("].")
    L.append("")
    L.append("(* stage_0.rs OriginalDialect::op arms *)")
    L.append("Definition original_dialect_ops : list N := %s." % coq_nlist(a for a, g, f in orig_arms))
    L.append("Definition original_dialect_kws : N * N * N := (%d, %d, %d)." % (orig_kws["quote_kw"], orig_kws["apply_kw"], orig_kws["softfork_kw"]))
    L.append("")
    L.append("(* clvmr %s chia_dialect.rs ChiaDialect::op arms: (opcode, needs keccak flag) *)" % ver)
    L.append("Definition chia_dialect_ops : list (N * bool) := [%s]." % "; ".join("(%d, %s)" % (a, "true" if g else "false") for a, g, f in chia_arms))
    L.append("Definition chia_dialect_kws : N * N * N := (%d, %d, %d)." % (chia_kws["quote_kw"], chia_kws["apply_kw"], chia_kws["softfork_kw"]))
    L.append("")
    L.append("(* stage_0.rs DefaultProgramRunner: operators_version => (is_chia_dialect, keccak flag) ; None = wildcard *)")
    rl = []
    for a, dn, flags in runner:
        if dn not in ("OriginalDialect", "ChiaDialect"):
            raise TranslateError("runner uses unknown dialect %s" % dn)
        if "NO_UNKNOWN_OPS" not in flags:
            raise TranslateError("runner arm %s lost NO_UNKNOWN_OPS" % a)
        rl.append("(%s, %s, %s)" % ("None" if a is None else "Some %d" % a, "true" if dn == "ChiaDialect" else "false", "true" if "ENABLE_KECCAK_OPS_OUTSIDE_GUARD" in flags else "false"))
    L.append("Definition runner_dispatch : list (option N * bool * bool) := [%s]." % "; ".join(rl))
    L.append("")
    return "\n".join(L)


GENERATORS = {"OpTables.v": gen_optables}


def main():
    os.makedirs(OUT, exist_ok=True)
    try:
        from gen_consts import gen_consts  # noqa
        GENERATORS["Consts.v"] = gen_consts
    except ImportError:
        pass
    rc = 0
    for name, fn in GENERATORS.items():
        path = os.path.join(OUT, name)
        try:
            txt = fn()
        except Exception as e:
            if type(e).__name__ != "TranslateError":
                raise
            sys.stderr.write("TRANSLATE-ERROR %s: %s\n" % (name, e))
            # leave a file that cannot compile so no stale table is used
            txt = "(* translator failed: %s *)\nTranslator_failed.\n" % str(e).replace("*)", "* )")
            rc = 2
        old = None
        if os.path.exists(path):
            old = open(path).read()
        if old != txt:
            with open(path, "w") as f:
                f.write(txt)
    sys.exit(rc)


if __name__ == "__main__":
    sys.path.insert(0, os.path.dirname(os.path.abspath(__file__)))
    main()
