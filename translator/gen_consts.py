"""Gen/Consts.v: constants and small pure expressions translated from /repo's source.

A restricted Rust expression grammar (integer literals, identifiers, >> << & | ^ + - * /, parentheses,
`as <int type>`) is translated to Coq terms over N; `as u8` becomes `mod 256`, `as u32` `mod 2^32`,
wider casts are the identity on the value ranges involved (stated as such in DESIGN.md)."""
import re
from gen import TranslateError, read, balanced, parse_int, split_top

# ------------------------------------------------------------ expression translator

TOK = re.compile(r"\s*(0x[0-9a-fA-F_]+|\d[\d_]*(?:u8|u16|u32|u64|usize|i32|i64)?|[A-Za-z_][A-Za-z_0-9]*|>>|<<|[()&|^+\-*/])")


def tokenize(s):
    out = []
    i = 0
    s = s.strip()
    while i < len(s):
        m = TOK.match(s, i)
        if not m:
            raise TranslateError("cannot tokenize expression %r at %d" % (s, i))
        out.append(m.group(1))
        i = m.end()
    return out


class P:
    # precedence climbing, Rust precedences: * /  >  + -  >  << >>  >  &  >  ^  >  |  ; `as` binds tighter than all
    LEVELS = [["|"], ["^"], ["&"], ["<<", ">>"], ["+", "-"], ["*", "/"]]

    def __init__(self, toks, env):
        self.t = toks
        self.i = 0
        self.env = env

    def peek(self):
        return self.t[self.i] if self.i < len(self.t) else None

    def next(self):
        x = self.t[self.i]
        self.i += 1
        return x

    def parse(self, lvl=0):
        if lvl == len(self.LEVELS):
            return self.cast()
        l = self.parse(lvl + 1)
        while self.peek() in self.LEVELS[lvl]:
            op = self.next()
            r = self.parse(lvl + 1)
            l = self.bin(op, l, r)
        return l

    def bin(self, op, l, r):
        f = {"|": "N.lor", "^": "N.lxor", "&": "N.land", "<<": "N.shiftl", ">>": "N.shiftr",
             "+": "N.add", "-": "N.sub", "*": "N.mul", "/": "N.div"}[op]
        return "(%s %s %s)" % (f, l, r)

    def cast(self):
        a = self.atom()
        while self.peek() == "as":
            self.next()
            ty = self.next()
            if ty == "u8":
                a = "(N.modulo %s 256)" % a
            elif ty == "u16":
                a = "(N.modulo %s 65536)" % a
            elif ty == "u32":
                a = "(N.modulo %s 4294967296)" % a
            elif ty in ("u64", "usize", "i64"):
                pass
            else:
                raise TranslateError("cast to %s not supported" % ty)
        return a

    def atom(self):
        t = self.next()
        if t == "(":
            e = self.parse(0)
            if self.next() != ")":
                raise TranslateError("expected )")
            return e
        if re.match(r"0x|\d", t):
            return str(parse_int(t))
        if t in self.env:
            return self.env[t]
        raise TranslateError("unknown identifier %s in expression" % t)


def tr_expr(s, env):
    p = P(tokenize(s), env)
    e = p.parse(0)
    if p.peek() is not None:
        raise TranslateError("trailing tokens in %r" % s)
    return e


# ------------------------------------------------------------ serialize.rs

def const_u32(src, name):
    m = re.search(r"const\s+%s\s*:\s*\w+\s*=\s*(0x[0-9a-fA-F_]+|\d+)\s*;" % name, src)
    if not m:
        raise TranslateError("const %s not found" % name)
    return parse_int(m.group(1))


def fn_body(src, name):
    m = re.search(r"fn\s+%s\s*(?:<[^>]*>)?\s*\(" % name, src)
    if not m:
        raise TranslateError("fn %s not found" % name)
    pe = balanced(src, m.end() - 1, "(", ")")
    b = src.index("{", pe)
    return src[b:balanced(src, b, "{", "}")]


def gen_serialize(L):
    src = read("src/classic/clvm/serialize.rs")
    msb = const_u32(src, "MAX_SINGLE_BYTE")
    cbm = const_u32(src, "CONS_BOX_MARKER")
    L.append("Definition MAX_SINGLE_BYTE : N := %d." % msb)
    L.append("Definition CONS_BOX_MARKER : N := %d." % cbm)
    body = fn_body(src, "atom_size_blob")
    # head: size==0 -> [0x80]; size==1 && b.at(0) <= MAX_SINGLE_BYTE -> data
    m = re.search(r"if\s+size\s*==\s*0\s*\{\s*return\s+Ok\s*\(\s*\(\s*false\s*,\s*vec!\s*\[\s*(0x[0-9a-fA-F]+|\d+)\s*\]\s*\)\s*\)\s*;\s*\}\s*else\s+if\s+size\s*==\s*1\s*&&\s*b\s*\.\s*at\s*\(\s*0\s*\)\s*<=\s*MAX_SINGLE_BYTE\s+as\s+u8\s*\{\s*return\s+Ok\s*\(\s*\(\s*false\s*,\s*b\s*\.\s*data\s*\(\s*\)\s*\.\s*clone\s*\(\s*\)\s*\)\s*\)\s*;\s*\}", body)
    if not m:
        raise TranslateError("atom_size_blob: the size==0 / single-byte head changed shape")
    L.append("Definition EMPTY_ATOM_BYTE : N := %d." % parse_int(m.group(1)))
    rest = body[m.end():]
    classes = []
    pos = 0
    while True:
        cm = re.compile(r"\s*(?:else\s+)?if\s+size\s*<\s*(0x[0-9a-fA-F_]+|\d+)\s*\{").match(rest, pos)
        if not cm:
            break
        bend = balanced(rest, cm.end() - 1, "{", "}")
        blk = rest[cm.end():bend - 1]
        vm = re.search(r"Ok\s*\(\s*\(?\s*true\s*,\s*vec!\s*\[", blk)
        if not vm:
            raise TranslateError("atom_size_blob: class block without Ok((true, vec![..]))")
        vend = balanced(blk, vm.end() - 1, "[", "]")
        elems = [e for e in split_top(blk[vm.end():vend - 1]) if e.strip()]
        classes.append((parse_int(cm.group(1)), [tr_expr(e, {"size": "size"}) for e in elems]))
        pos = bend
    em = re.compile(r"\s*else\s*\{\s*Err").match(rest, pos)
    if not em or not classes:
        raise TranslateError("atom_size_blob: size class chain changed shape")
    L.append("(* atom_size_blob: (exclusive size bound, prefix bytes as a function of size), in source order;")
    L.append("   sizes at or beyond the last bound are unrepresentable (Err) *)")
    L.append("Definition size_classes : list (N * (N -> list N)) := [")
    L.append(";\n".join("  (%d, fun size => [%s])" % (b, "; ".join(es)) for b, es in classes))
    L.append("].")
    # SExpToBytesIterator: pair => push r, push f, emit marker
    it = re.search(r"SExp::Pair\s*\(\s*f\s*,\s*r\s*\)\s*=>\s*\{\s*self\s*\.\s*state\s*\.\s*push\s*\(\s*SExpToByteOp::Object\s*\(\s*r\s*\)\s*\)\s*;\s*self\s*\.\s*state\s*\.\s*push\s*\(\s*SExpToByteOp::Object\s*\(\s*f\s*\)\s*\)\s*;\s*Some\s*\(\s*vec!\s*\[\s*CONS_BOX_MARKER\s+as\s+u8\s*\]\s*\)", src)
    if not it:
        raise TranslateError("SExpToBytesIterator: pair case changed shape")
    # atom_from_stream
    ab = fn_body(src, "atom_from_stream")
    m = re.search(r"if\s+b\s*==\s*(0x[0-9a-fA-F]+|\d+)\s*\{\s*return\s+Ok\s*\(\s*NodePtr::NIL\s*\)\s*;\s*\}\s*else\s+if\s+b\s*<=\s*MAX_SINGLE_BYTE\s+as\s+u8\s*\{\s*return\s+allocator\s*\.\s*new_atom\s*\(\s*&\s*\[\s*b\s*\]\s*\)\s*;\s*\}", ab)
    if not m:
        raise TranslateError("atom_from_stream: head changed shape")
    L.append("Definition DECODE_EMPTY_BYTE : N := %d." % parse_int(m.group(1)))
    m = re.search(r"let\s+mut\s+bit_count\s*=\s*(\d+)\s*;\s*let\s+mut\s+bit_mask\s*=\s*(0x[0-9a-fA-F]+|\d+)\s*;\s*while\s*\(\s*b\s*&\s*bit_mask\s*\)\s*!=\s*0\s*\{\s*bit_count\s*\+=\s*1\s*;\s*b\s*\^=\s*bit_mask\s*;\s*bit_mask\s*>>=\s*1\s*;\s*\}", ab)
    if not m:
        raise TranslateError("atom_from_stream: prefix bit loop changed shape")
    L.append("Definition DECODE_BIT_COUNT_INIT : N := %d." % int(m.group(1)))
    L.append("Definition DECODE_BIT_MASK_INIT : N := %d." % parse_int(m.group(2)))
    gm = re.search(r"if\s+bit_count\s*>\s*(\d+)\s*\{\s*return\s+Err", ab)
    L.append("(* guard between the prefix loop and the size read: Some n = `if bit_count > n { return Err }` *)")
    L.append("Definition DECODE_MAX_SIZE_BYTES : option N := %s." % ("Some %d" % int(gm.group(1)) if gm else "None"))
    if gm and not (ab.index("bit_mask >>= 1") < gm.start() < ab.index("let mut size_blob")):
        raise TranslateError("atom_from_stream: the bit_count guard moved")
    m = re.search(r"if\s+bit_count\s*>\s*(\d+)\s*\{\s*let\s+bin\s*=\s*f\s*\.\s*read\s*\(\s*bit_count\s*-\s*(\d+)\s*\)\s*;\s*if\s+bin\s*\.\s*length\s*\(\s*\)\s*!=\s*bit_count\s*-\s*(\d+)", ab)
    if not m or not (m.group(1) == m.group(2) == m.group(3) == "1"):
        raise TranslateError("atom_from_stream: size blob read changed shape")
    m = re.search(r"if\s+size\s*>=\s*(0x[0-9a-fA-F_]+|\d+)\s*\{\s*return\s+Err", ab)
    if not m:
        raise TranslateError("atom_from_stream: size limit changed shape")
    L.append("Definition DECODE_SIZE_LIMIT : N := %d." % parse_int(m.group(1)))
    m = re.search(r"let\s+blob\s*=\s*f\s*\.\s*read\s*\(\s*size\s+as\s+usize\s*\)\s*;\s*if\s+blob\s*\.\s*length\s*\(\s*\)\s*!=\s*size\s+as\s+usize\s*\{\s*return\s+Err", ab)
    if not m:
        raise TranslateError("atom_from_stream: blob read / short-read check changed shape")
    if not re.search(r"int_from_bytes\s*\(\s*size_blob\s*,\s*None\s*\)", ab):
        raise TranslateError("atom_from_stream: size is no longer int_from_bytes(size_blob, None)")


def gen_casts(L):
    src = read("src/classic/clvm/__type_compatibility__.rs")
    body = fn_body(src, "get_u32")
    m = re.search(r"let\s+p1\s*=\s*v\s*\[\s*n\s*\]\s+as\s+u32\s*;\s*let\s+p2\s*=\s*v\s*\[\s*n\s*\+\s*1\s*\]\s+as\s+u32\s*;\s*let\s+p3\s*=\s*v\s*\[\s*n\s*\+\s*2\s*\]\s+as\s+u32\s*;\s*let\s+p4\s*=\s*v\s*\[\s*n\s*\+\s*3\s*\]\s+as\s+u32\s*;\s*(.*?)\s*\}\s*$", body, re.S)
    if not m:
        raise TranslateError("get_u32 changed shape")
    e = tr_expr(m.group(1), {"p1": "p1", "p2": "p2", "p3": "p3", "p4": "p4"})
    L.append("(* __type_compatibility__.rs get_u32: the four bytes v[n..n+4] combined as written *)")
    L.append("Definition get_u32_expr (p1 p2 p3 p4 : N) : N := %s." % e)
    casts = read("src/classic/clvm/casts.rs")
    ib = fn_body(casts, "int_from_bytes")
    need = [r"b\s*\.\s*length\s*\(\s*\)\s*==\s*0", r"b\s*\.\s*length\s*\(\s*\)\s*\*\s*8\s*>\s*64",
            r"let\s+bytes4_remain\s*=\s*dv\s*\.\s*len\s*\(\s*\)\s*%\s*4\s*;", r"let\s+bytes4_length\s*=\s*\(\s*dv\s*\.\s*len\s*\(\s*\)\s*-\s*bytes4_remain\s*\)\s*/\s*4\s*;",
            r"get_u32\s*\(\s*&\s*dv\s*,\s*i\s*\*\s*4\s*\+\s*bytes4_remain\s*\)\s+as\s+u64", r"unsigned64\s*\+=\s*byte32\s*\*\s*order\s*;\s*order\s*<<=\s*32\s*;",
            r"let\s+byte\s*=\s*dv\s*\[\s*i\s*\]\s+as\s+u64\s*;\s*unsigned64\s*\+=\s*byte\s*\*\s*order\s*;\s*order\s*<<=\s*8\s*;"]
    for pat in need:
        if not re.search(pat, ib):
            raise TranslateError("int_from_bytes: expected fragment missing: %s" % pat)
    L.append("Definition INT_FROM_BYTES_MAX_BITS : N := 64.")


def gen_optimize(L):
    src = read("src/classic/clvm_tools/stages/stage_2/optimize.rs")
    pb = fn_body(src, "path_from_args")

    def signedness(body, what):
        if re.search(r"number_from_u8\s*\(", body):
            return True
        if re.search(r"bigint_from_bytes\s*\([^;]*?,\s*None\s*,?\s*\)", body, re.S):
            return False
        raise TranslateError("%s: cannot tell how the path atom is read" % what)
    sg = signedness(pb, "path_from_args")
    if re.search(r"if\s+v\s*<=\s*bi_one\s*\(\s*\)\s*\{\s*Ok\s*\(\s*new_args\s*\)", pb):
        zero_whole = True
    elif re.search(r"if\s+v\s*==\s*bi_zero\s*\(\s*\)\s*\{\s*(?:return\s+)?Ok\s*\(\s*sexp\s*\)", pb) and re.search(r"v\s*==\s*bi_one\s*\(\s*\)\s*\{\s*(?:return\s+)?Ok\s*\(\s*new_args\s*\)", pb):
        zero_whole = False
    else:
        raise TranslateError("path_from_args: the v <= 1 / v == 0 head changed shape")
    if not re.search(r"u8_from_number\s*\(\s*v\s*\.\s*clone\s*\(\s*\)\s*>>\s*1\s*\)", pb) or not re.search(r"v\s*&\s*1_u32", pb):
        raise TranslateError("path_from_args: the bit loop changed shape")
    po = fn_body(src, "path_optimizer")
    so = signedness(po, "path_optimizer")
    if len(re.findall(r"NodePath::new\s*\(\s*Some\s*\(\s*atom\s*\)\s*\)\s*\.\s*add\s*\(\s*NodePath::new\s*\(\s*None\s*\)\s*\.\s*(first|rest)\s*\(\s*\)\s*\)", po)) != 2:
        raise TranslateError("path_optimizer: NodePath composition changed shape")
    sb = fn_body(src, "sub_args")
    ch = fn_body(src, "children_optimizer")
    sub_rec = re.search(r"SExp::Pair\s*\(\s*_\s*,\s*_\s*\)\s*=>\s*\{\s*first\s*=\s*sub_args\s*\(\s*allocator\s*,\s*first_pre\s*,\s*new_args\s*\)\s*\?\s*;\s*\}", sb)
    sub_opq = re.search(r"SExp::Pair\s*\(\s*_\s*,\s*_\s*\)\s*=>\s*\{\s*return\s+Ok\s*\(\s*sexp\s*\)\s*;\s*\}", sb)
    ch_opq = re.search(r"if\s+let\s+SExp::Atom\s*=\s*allocator\s*\.\s*sexp\s*\(\s*list\s*\[\s*0\s*\]\s*\)\s*\{.*?\}\s*\}\s*else\s*\{\s*return\s+Ok\s*\(\s*r\s*\)\s*;\s*\}", ch, re.S)
    if sub_rec and not ch_opq:
        opaque = False
    elif sub_opq and ch_opq:
        opaque = True
    else:
        raise TranslateError("sub_args / children_optimizer: treatment of a pair in head position changed shape")
    vb = fn_body(src, "var_change_optimizer_cons_eval")
    vskip = re.search(r"if\s+let\s+SExp::Pair\s*\(\s*call_head\s*,\s*_\s*\)\s*=\s*allocator\s*\.\s*sexp\s*\(\s*\*original_call\s*\)\s*\{\s*if\s+let\s+SExp::Pair\s*\(\s*_\s*,\s*_\s*\)\s*=\s*allocator\s*\.\s*sexp\s*\(\s*call_head\s*\)\s*\{\s*return\s+Ok\s*\(\s*r\s*\)\s*;", vb)
    if vskip and not (vskip.start() < vb.index("sub_args(")):
        raise TranslateError("var_change_optimizer_cons_eval: the pair-head guard moved after sub_args")
    L.append("Definition OPT_VAR_CHANGE_SKIPS_PAIR_HEAD : bool := %s." % ("true" if vskip else "false"))
    # the same guard on the substituted form, before its operands are optimised one by one
    vskip2 = re.search(r"if\s+let\s+SExp::Pair\s*\(\s*new_head\s*,\s*_\s*\)\s*=\s*allocator\s*\.\s*sexp\s*\(\s*new_eval_sexp_args\s*\)\s*\{\s*if\s+let\s+SExp::Pair\s*\(\s*_\s*,\s*_\s*\)\s*=\s*allocator\s*\.\s*sexp\s*\(\s*new_head\s*\)\s*\{\s*return\s+Ok\s*\(\s*r\s*\)\s*;", vb)
    if vskip2 and not (vb.index("sub_args(") < vskip2.start() < vb.index("proper_list(")):
        raise TranslateError("var_change_optimizer_cons_eval: the guard on the substituted form is not between sub_args and the operand loop")
    L.append("Definition OPT_VAR_CHANGE_SKIPS_NEW_PAIR_HEAD : bool := %s." % ("true" if vskip2 else "false"))
    L.append("(* stage_2/optimize.rs: are ((X) . operands) forms left alone by sub_args and children_optimizer *)")
    L.append("Definition OPT_PAIR_HEAD_OPAQUE : bool := %s." % ("true" if opaque else "false"))
    L.append("(* stage_2/optimize.rs: how path atoms are read *)")
    L.append("Definition OPT_PATH_ARGS_SIGNED : bool := %s." % ("true" if sg else "false"))
    L.append("Definition OPT_PATH_ARGS_ZERO_WHOLE : bool := %s." % ("true" if zero_whole else "false"))
    L.append("Definition OPT_PATH_OPT_SIGNED : bool := %s." % ("true" if so else "false"))
    # the order of the optimizers in the driver
    names = re.findall(r'OptimizerRunner::new\s*\(\s*"(\w+)"', fn_body(src, "optimize_sexp_"))
    want = ["cons_optimizer", "constant_optimizer", "cons_q_a_optimizer", "var_change_optimizer_cons_eval",
            "children_optimizer", "path_optimizer", "quote_null_optimizer", "apply_null_optimizer"]
    if names != want:
        raise TranslateError("optimize_sexp_: optimizer list is %r, the model has %r" % (names, want))


def gen_deps(L):
    src = read("src/compiler/preprocessor/mod.rs")
    body = fn_body(src, "recurse_dependencies")
    early = re.search(r"if\s+KNOWN_DIALECTS\s*\.\s*contains_key\s*\(\s*&name_string\s*\)\s*(\|\|\s*desc\s*\.\s*kind\s*\.\s*is_some\s*\(\s*\)\s*)?\{\s*return\s+Ok\s*\(\s*\(\s*\)\s*\)\s*;", body)
    if not early:
        raise TranslateError("recurse_dependencies: early-return head changed shape")
    push = re.search(r"includes\s*\.\s*push\s*\(\s*IncludeDesc\s*\{\s*name\s*:\s*full_name", body)
    read_ = re.search(r"read_new_file\s*\(", body)
    if not push or not read_ or not (read_.start() < push.start()):
        raise TranslateError("recurse_dependencies: read_new_file / includes.push changed shape")
    record_embed = early.group(1) is None
    if record_embed:
        # an is_some() test before the push would again skip embedded files
        m = re.search(r"kind\s*\.\s*is_some\s*\(\s*\)", body[:push.start()])
        if m and re.search(r"if[^{]*kind\s*\.\s*is_some\s*\(\s*\)[^{]*\{\s*return", body[:push.start()]):
            record_embed = False
    L.append("(* preprocessor/mod.rs recurse_dependencies: are embed-file targets recorded *)")
    L.append("Definition DEPS_RECORD_EMBED : bool := %s." % ("true" if record_embed else "false"))
    pp = fn_body(src, "process_pp_form")
    if not re.search(r"IncludeType::Processed\s*\(\s*f\s*,\s*kind\s*,\s*name\s*\)\s*\)\s*=\s*&included\s*\{\s*self\s*\.\s*recurse_dependencies\s*\(\s*includes\s*,\s*f\s*\.\s*clone\s*\(\s*\)\s*\)\s*\?\s*;", pp):
        raise TranslateError("process_pp_form: embed-file no longer goes through recurse_dependencies")
    if not re.search(r"IncludeType::Basic\s*\(\s*i\s*\)\s*\)\s*=\s*&included\s*\{\s*self\s*\.\s*recurse_dependencies\s*\(\s*includes\s*,\s*i\s*\.\s*clone\s*\(\s*\)\s*\)\s*\?\s*;", pp):
        raise TranslateError("process_pp_form: include no longer goes through recurse_dependencies")


def tr_bool(s, env):
    """boolean expressions over identifiers, integer literals, || && ! and comparisons -> Coq bool terms over N"""
    toks = re.findall(r"\|\||&&|==|!=|<=|>=|<|>|!|\(|\)|[A-Za-z_][A-Za-z_0-9]*|\d+", s)
    if "".join(toks) != re.sub(r"\s+", "", s):
        raise TranslateError("cannot tokenize boolean expression %r" % s)
    pos = [0]

    def peek():
        return toks[pos[0]] if pos[0] < len(toks) else None

    def nxt():
        pos[0] += 1
        return toks[pos[0] - 1]

    def atom():
        t = nxt()
        if t == "(":
            e = orx()
            if nxt() != ")":
                raise TranslateError("expected )")
            return e
        if t == "!":
            return "(negb %s)" % atom()
        if t.isdigit():
            return t
        if t in env:
            return env[t]
        raise TranslateError("unknown identifier %s in %r" % (t, s))

    def cmpx():
        a = atom()
        if peek() in ("==", "!=", "<", ">", "<=", ">="):
            op = nxt()
            b = atom()
            return {"==": "(N.eqb %s %s)", "!=": "(negb (N.eqb %s %s))", "<": "(N.ltb %s %s)", "<=": "(N.leb %s %s)"}.get(op, None) % (a, b) if op in ("==", "!=", "<", "<=") \
                else {">": "(N.ltb %s %s)", ">=": "(N.leb %s %s)"}[op] % (b, a)
        return a

    def andx():
        a = cmpx()
        while peek() == "&&":
            nxt()
            a = "(andb %s %s)" % (a, cmpx())
        return a

    def orx():
        a = andx()
        while peek() == "||":
            nxt()
            a = "(orb %s %s)" % (a, andx())
        return a
    e = orx()
    if peek() is not None:
        raise TranslateError("trailing tokens in %r" % s)
    return e


def gen_entry(L):
    env = {"do_optimize": "do_optimize", "stepping": "stepping"}
    src = read("src/classic/clvm_tools/clvmc.rs")
    body = fn_body(src, "compile_clvm_text_maybe_opt")
    m1 = re.search(r"\.\s*set_optimize\s*\(([^)]*)\)", body)
    m2 = re.search(r"\.\s*set_frontend_opt\s*\(([^)]*)\)", body)
    if not m1 or not m2:
        raise TranslateError("compile_clvm_text_maybe_opt: set_optimize / set_frontend_opt not found")
    L.append("(* clvmc.rs compile_clvm_text_maybe_opt: options derived for a program with a dialect stepping *)")
    L.append("Definition lib_optimize (do_optimize : bool) (stepping : N) : bool := %s." % tr_bool(m1.group(1), env))
    L.append("Definition lib_frontend_opt (do_optimize : bool) (stepping : N) : bool := %s." % tr_bool(m2.group(1), env))
    fin = re.search(r"maybe_finalize_program_via_classic_optimizer\s*\(\s*allocator\s*,\s*runner\s*,\s*opts\s*,\s*(\w+)\s*,", body)
    if not fin:
        raise TranslateError("compile_clvm_text_maybe_opt: classic post-optimiser call changed shape")
    L.append("Definition lib_post_opt (do_optimize : bool) : bool := %s." % tr_bool(fin.group(1), env))
    tb = fn_body(src, "compile_clvm_text")
    mt = re.search(r"compile_clvm_text_maybe_opt\s*\(\s*allocator\s*,\s*(true|false)\s*,", tb)
    if not mt:
        raise TranslateError("compile_clvm_text: does not call compile_clvm_text_maybe_opt with a literal flag")
    L.append("Definition LIB_ENTRY_DO_OPTIMIZE : bool := %s." % mt.group(1))
    ci = read("src/classic/clvm_tools/comp_input.rs")
    m = re.search(r"if\s+let\s+Some\s*\(\s*stepping\s*\)\s*=\s*dialect\s*\.\s*stepping\s*\{\s*opts\s*=\s*opts\s*\.\s*set_optimize\s*\(([^)]*)\)\s*\.\s*set_frontend_opt\s*\(([^)]*)\)\s*;", ci)
    if not m:
        raise TranslateError("RunAndCompileInputData::new: option derivation changed shape")
    L.append("(* comp_input.rs RunAndCompileInputData::new (run, cldb) *)")
    L.append("Definition cli_optimize (do_optimize : bool) (stepping : N) : bool := %s." % tr_bool(m.group(1), env))
    L.append("Definition cli_frontend_opt (do_optimize : bool) (stepping : N) : bool := %s." % tr_bool(m.group(2), env))
    cm = fn_body(ci, "compile_modern")
    fin = re.search(r"maybe_finalize_program_via_classic_optimizer\s*\(\s*allocator\s*,\s*runner\s*,\s*self\s*\.\s*opts\s*\.\s*clone\s*\(\s*\)\s*,\s*self\s*\.\s*(\w+)\s*,", cm)
    if not fin:
        raise TranslateError("compile_modern: classic post-optimiser call changed shape")
    L.append("Definition cli_post_opt (do_optimize : bool) : bool := %s." % tr_bool(fin.group(1), env))
    # both tools build their options from the same constructor
    cmds = read("src/classic/clvm_tools/cmds.rs")
    for fn in ("cldb", "launch_tool"):
        b = fn_body(cmds, fn)
        if not re.search(r"RunAndCompileInputData::new\s*\(\s*&mut\s+allocator\s*,\s*&parsed_args\s*\)", b) or not re.search(r"\.\s*compile_modern\s*\(", b):
            raise TranslateError("%s no longer compiles through RunAndCompileInputData::new + compile_modern" % fn)


def gen_text(L):
    src = read("src/classic/clvm/__type_compatibility__.rs")
    m = re.search(r"pub\s+fn\s+to_formal_string\s*\(\s*&self\s*\)\s*->\s*String\s*\{\s*pybytes_repr\s*\(\s*&self\._b\s*,\s*(true|false)\s*,\s*(true|false)\s*\)\s*\}", src)
    if not m:
        raise TranslateError("Bytes::to_formal_string changed shape")
    if m.group(1) != "true":
        raise TranslateError("to_formal_string no longer asks for a double-quoted string")
    L.append("(* __type_compatibility__.rs Bytes::to_formal_string = pybytes_repr(b, true, FULL_REPR): is the backslash escaped *)")
    L.append("Definition FORMAL_STRING_FULL_REPR : bool := %s." % m.group(2))
    body = fn_body(src, "pybytes_repr")
    if not re.search(r"if\s+c\s*==\s*quote\s*\|\|\s*\(\s*c\s*==\s*'\\\\'\s*&&\s*full_repr\s*\)", body):
        raise TranslateError("pybytes_repr: escape condition changed shape")
    w = read("src/classic/clvm_tools/ir/writer.rs")
    if not re.search(r"to_formal_string\s*\(\s*\)", w):
        raise TranslateError("ir/writer.rs no longer writes quoted atoms with to_formal_string")
    r = read("src/classic/clvm_tools/ir/reader.rs")
    cq = fn_body(r, "consume_quoted")
    if not re.search(r"if\s+bs\s*\{\s*bs\s*=\s*false\s*;\s*qchars\s*\.\s*push\s*\(\s*b\s*\.\s*at\s*\(\s*0\s*\)\s*\)\s*;\s*\}\s*else\s+if\s+b\s*\.\s*at\s*\(\s*0\s*\)\s*==\s*b'\\\\'\s*\{\s*bs\s*=\s*true\s*;\s*\}\s*else\s+if\s+b\s*\.\s*at\s*\(\s*0\s*\)\s*==\s*q\s*\{\s*break\s*;", cq):
        raise TranslateError("consume_quoted: escape loop changed shape")


def gen_consts():
    L = []
    L.append("(* GENERATED by /verif/translator/gen_consts.py from /repo's current source. Do not edit. *)")
    L.append("From Coq Require Import List NArith ZArith.")
    L.append("Import ListNotations.")
    L.append("Open Scope N_scope.")
    L.append("")
    gen_serialize(L)
    L.append("")
    gen_casts(L)
    L.append("")
    gen_optimize(L)
    L.append("")
    gen_deps(L)
    L.append("")
    gen_entry(L)
    L.append("")
    gen_text(L)
    L.append("")
    return "\n".join(L)
