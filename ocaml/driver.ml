(* Driver for the extracted model: reads "<op>\t<arg>..." lines, prints one result line each.
   Hand-written and trusted: conversions between OCaml ints/strings and the extracted
   N / Z / byte lists / val, and the notation reader/printer (atom = 'x' hex*, pair = '(' v v ')'). *)
open Model
type string = Stdlib.String.t

let rec pos_of_int n = if n = 1 then XH else if n land 1 = 0 then XO (pos_of_int (n lsr 1)) else XI (pos_of_int (n lsr 1))
let n_of_int n = if n = 0 then N0 else Npos (pos_of_int n)
let rec int_of_pos = function XH -> 1 | XO p -> 2 * int_of_pos p | XI p -> 2 * int_of_pos p + 1
let int_of_n = function N0 -> 0 | Npos p -> int_of_pos p

(* big numbers printed in hex, sign-magnitude *)
let hex_of_pos p =
  let rec bits p acc = match p with XH -> 1 :: acc | XO q -> bits q (0 :: acc) | XI q -> bits q (1 :: acc) in
  (* bits returns lsb-first reversed => msb first *)
  let bs = bits p [] in
  let bs = List.rev bs in (* lsb first *)
  let rec nibbles l acc = match l with
    | [] -> acc
    | a :: b :: c :: d :: r -> nibbles r ((a + 2*b + 4*c + 8*d) :: acc)
    | l -> let rec pad l = if List.length l < 4 then pad (l @ [0]) else l in nibbles (pad l) acc in
  let ns = nibbles bs [] in
  String.concat "" (List.map (Printf.sprintf "%x") ns)
let str_of_n = function N0 -> "0x0" | Npos p -> "0x" ^ hex_of_pos p
let str_of_z = function Z0 -> "0x0" | Zpos p -> "0x" ^ hex_of_pos p | Zneg p -> "-0x" ^ hex_of_pos p

let pos_of_hex s =
  (* s: hex digits, non-zero value *)
  let acc = ref None in
  String.iter (fun c ->
    let d = int_of_string ("0x" ^ String.make 1 c) in
    for k = 3 downto 0 do
      let bit = (d lsr k) land 1 in
      acc := (match !acc with
        | None -> if bit = 1 then Some XH else None
        | Some p -> Some (if bit = 1 then XI p else XO p))
    done) s;
  !acc
let n_of_hex s = match pos_of_hex s with None -> N0 | Some p -> Npos p
let z_of_str s =
  let neg = String.length s > 0 && s.[0] = '-' in
  let s = if neg then String.sub s 1 (String.length s - 1) else s in
  let s = if String.length s > 2 && s.[0] = '0' && s.[1] = 'x' then String.sub s 2 (String.length s - 2) else s in
  match pos_of_hex s with None -> Z0 | Some p -> if neg then Zneg p else Zpos p

let byte_tab = Array.init 256 n_of_int
let bytes_of_hex s =
  let n = String.length s / 2 in
  let rec go i acc = if i < 0 then acc else
    go (i - 1) (byte_tab.(int_of_string ("0x" ^ String.sub s (2 * i) 2)) :: acc) in
  go (n - 1) []
let hex_of_bytes (b : n list) =
  let buf = Buffer.create 16 in
  List.iter (fun x -> Buffer.add_string buf (Printf.sprintf "%02x" (int_of_n x))) b;
  Buffer.contents buf
let string_of_bytes (b : n list) =
  let buf = Buffer.create 16 in
  List.iter (fun x -> Buffer.add_char buf (Char.chr (int_of_n x land 255))) b;
  Buffer.contents buf
let bytes_of_string s = List.init (String.length s) (fun i -> byte_tab.(Char.code s.[i]))

let parse_val (s : string) : val0 =
  let n = String.length s in
  let st = ref [] in   (* stack of `None` = open, `Some v` *)
  let res = ref None in
  let push v = (match !st with [] -> res := Some v | _ -> st := Some v :: !st) in
  let i = ref 0 in
  while !i < n do
    (match s.[!i] with
     | ' ' -> incr i
     | '(' -> st := None :: !st; incr i
     | 'x' ->
       let j = ref (!i + 1) in
       while !j < n && (match s.[!j] with '0'..'9' | 'a'..'f' | 'A'..'F' -> true | _ -> false) do incr j done;
       let v = Atom (bytes_of_hex (String.sub s (!i + 1) (!j - !i - 1))) in
       i := !j; push v
     | ')' ->
       incr i;
       (match !st with
        | Some r :: Some l :: None :: rest -> st := rest; push (Cons (l, r))
        | _ -> failwith "bad )")
     | c -> failwith (Printf.sprintf "bad char %c" c))
  done;
  match !res with Some v -> v | None -> failwith "empty value"

let print_val (v : val0) : string =
  let buf = Buffer.create 64 in
  let rec go = function
    | Atom b -> Buffer.add_char buf 'x'; Buffer.add_string buf (hex_of_bytes b)
    | Cons (a, b) -> Buffer.add_char buf '('; go a; Buffer.add_char buf ' '; go b; Buffer.add_char buf ')' in
  go v; Buffer.contents buf

let jstr s =
  let b = Buffer.create 16 in
  Buffer.add_char b '"';
  String.iter (fun c -> match c with
    | '"' -> Buffer.add_string b "\\\"" | '\\' -> Buffer.add_string b "\\\\"
    | c when Char.code c < 0x20 -> Buffer.add_string b (Printf.sprintf "\\u%04x" (Char.code c))
    | c -> Buffer.add_char b c) s;
  Buffer.add_char b '"'; Buffer.contents b

let opt_str f = function Some x -> "SOME " ^ f x | None -> "NONE"

(* ---------------- C20 ---------------- *)
let tables () =
  let parts = ref [] in
  let add s = parts := s :: !parts in
  add (Printf.sprintf "\"latest\":%d" (int_of_n operators_latest_version));
  for v = 0 to 3 do
    let fr = match from_atom_rows (n_of_int v) with Some l -> l | None -> [] in
    let fr = List.filter (fun (a, n) -> keyword_from_atom (n_of_int v) a = Some n) fr in
    let fr = List.sort_uniq compare (List.map (fun (a, n) -> (hex_of_bytes a, string_of_bytes n)) fr) in
    let tr = match to_atom_rows (n_of_int v) with Some l -> l | None -> [] in
    let tr = List.filter (fun (n, a) -> keyword_to_atom (n_of_int v) n = Some a) tr in
    let tr = List.sort_uniq compare (List.map (fun (n, a) -> (string_of_bytes n, hex_of_bytes a)) tr) in
    add (Printf.sprintf "\"from%d\":[%s]" v (String.concat "," (List.map (fun (a, n) -> Printf.sprintf "[%s,%s]" (jstr a) (jstr n)) fr)));
    add (Printf.sprintf "\"to%d\":[%s]" v (String.concat "," (List.map (fun (n, a) -> Printf.sprintf "[%s,%s]" (jstr n) (jstr a)) tr)))
  done;
  let dec_of_z z = (* decimal via OCaml ints: opcodes fit *)
    match z with Z0 -> "0" | Zpos p -> string_of_int (int_of_pos p) | Zneg p -> "-" ^ string_of_int (int_of_pos p) in
  add (Printf.sprintf "\"prims\":[%s]" (String.concat "," (List.map (fun (n, z) -> Printf.sprintf "[%s,%s]" (jstr (string_of_bytes n)) (jstr (dec_of_z z))) modern_prims)));
  let pm = List.filter (fun (n, z) -> prim_lookup n = Some z) modern_prims in
  let pm = List.sort_uniq compare (List.map (fun (n, z) -> (string_of_bytes n, dec_of_z z)) pm) in
  add (Printf.sprintf "\"prim_map\":[%s]" (String.concat "," (List.map (fun (n, z) -> Printf.sprintf "[%s,%s]" (jstr n) (jstr z)) pm)));
  "{" ^ String.concat "," (List.rev !parts) ^ "}"

let ops_c20 = [
  "tables", (fun _ -> tables ());
  "implemented", (fun f -> (* ver, opcode hex *)
    let b = bytes_of_hex f.(2) in
    if implemented (n_of_int (int_of_string f.(1))) (be_val b) && opcode_canonical b then "IMPL" else "UNIMPL");
]

(* ---------------- C08 ---------------- *)
let rec nat_of_int n = if n = 0 then O else S (nat_of_int (n - 1))
let ops_c08 = [
  "ser", (fun f -> match encode (parse_val f.(1)) with Some b -> "OK " ^ hex_of_bytes b | None -> "OOF");
  "cser", (fun f -> match spec_encode (parse_val f.(1)) with Some b -> "OK " ^ hex_of_bytes b | None -> "ERR");
  "deser", (fun f -> let b = bytes_of_hex f.(1) in
     match decode b with
     | Some (v, rest) -> Printf.sprintf "OK %s %d" (print_val v) (List.length b - List.length rest)
     | None -> "ERR");
  "cdeser", (fun f -> let b = bytes_of_hex f.(1) in
     match spec_decode (nat_of_int (List.length b + 1)) b with
     | Some (v, rest) -> Printf.sprintf "OK %s 0" (print_val v)
     | None -> "ERR");
  "int_from_bytes", (fun f -> match int_from_bytes (bytes_of_hex f.(1)) with Some n -> "OK " ^ str_of_n n | None -> "ERR");
  "bigint_from_bytes", (fun f -> let b = bytes_of_hex f.(2) in
     if f.(1) = "1" then "OK " ^ str_of_z (bigint_from_bytes_signed b) else "OK " ^ str_of_n (bigint_from_bytes_unsigned b));
  "bigint_to_bytes_clvm", (fun f -> "OK " ^ hex_of_bytes (bigint_to_bytes_clvm (z_of_str f.(1))));
]

(* ---------------- C07 ---------------- *)
let parse_rich (s : string) : rich =
  let n = String.length s in
  let st = ref [] in
  let res = ref None in
  let push v = (match !st with [] -> res := Some v | _ -> st := Some v :: !st) in
  let i = ref 0 in
  while !i < n do
    (match s.[!i] with
     | ' ' -> incr i
     | '(' -> st := None :: !st; incr i
     | ')' -> incr i;
       (match !st with
        | Some r :: Some l :: None :: rest -> st := rest; push (RCons (l, r))
        | _ -> failwith "bad )")
     | _ ->
       let j = ref !i in
       while !j < n && s.[!j] <> ' ' && s.[!j] <> '(' && s.[!j] <> ')' do incr j done;
       let w = String.sub s !i (!j - !i) in
       i := !j;
       let tl k = String.sub w k (String.length w - k) in
       push (match w.[0] with
         | 'n' -> RNil
         | 'i' -> RInt (z_of_str (tl 1))
         | 'a' -> RAtom (bytes_of_hex (tl 1))
         | 'q' -> RQuoted (n_of_int (int_of_string ("0x" ^ String.sub w 1 2)), bytes_of_hex (tl 4))
         | _ -> failwith "bad rich token"))
  done;
  match !res with Some v -> v | None -> failwith "empty rich"

let rec print_rich = function
  | RNil -> "n"
  | RInt z -> "i" ^ str_of_z z
  | RQuoted (q, b) -> Printf.sprintf "q%02xx%s" (int_of_n q) (hex_of_bytes b)
  | RAtom b -> "a" ^ hex_of_bytes b
  | RCons (a, b) -> "(" ^ print_rich a ^ " " ^ print_rich b ^ ")"

let rec print_hexp = function
  | H1 b -> "(1 " ^ hex_of_bytes b ^ ")"
  | H2 (l, r) -> "(2 " ^ print_hexp l ^ " " ^ print_hexp r ^ ")"

let ops_c07 = [
  "r_to_clvm", (fun f -> "OK " ^ print_val (to_clvm (f.(1) = "1") (parse_rich f.(2))));
  "r_from_clvm", (fun f -> "OK " ^ print_rich (from_clvm (f.(1) = "1") (parse_val f.(2))));
  "r_hash", (fun f -> "HEXP " ^ print_hexp (sha256tree_rich (f.(1) = "1") (parse_rich f.(2))));
  "c_hash", (fun f -> "HEXP " ^ print_hexp (sha256tree_classic (parse_val f.(1))));
  "clvmr_hash", (fun f -> "HEXP " ^ print_hexp (treehash (parse_val f.(1))));
  "r_eq", (fun f -> if equal_to (parse_rich f.(1)) (parse_rich f.(2)) then "OK 1" else "OK 0");
  "r_hashstream", (fun f ->
     (* Vec<u8>::hash = write_length_prefix (usize, little endian 8 bytes) then the bytes *)
     let b = Buffer.create 64 in
     List.iter (fun v ->
       let len = List.length v in
       for k = 0 to 7 do Buffer.add_string b (Printf.sprintf "%02x" ((len lsr (8 * k)) land 255)) done;
       Buffer.add_string b "fe";
       Buffer.add_string b (hex_of_bytes v); Buffer.add_string b "fe") (hash_stream (parse_rich f.(1)));
     "OK " ^ Buffer.contents b);
]

(* ---------------- eval / C04 ---------------- *)
let show_res = function Ok v -> "OK " ^ print_val v | Fail -> "FAIL" | Oof -> "OOF"
let fuel_of s = nat_of_int (int_of_string s)
let ops_c04 = [
  "run", (fun f -> (* run <ver> prog env : consensus evaluation model with the executable operator oracle *)
     show_res (eval opf_exec (nat_of_int 5000) (parse_val f.(2)) (parse_val f.(3))));
  "opt", (fun f -> match optimize opf_exec (nat_of_int 400) (parse_val f.(1)) with
     | Done r -> "OK " ^ print_val r | Failed -> "ERR" | OptOof -> "OOF");
  "sub_args", (fun f -> "OK " ^ print_val (sub_args (parse_val f.(1)) (parse_val f.(2))));
]

(* ---------------- C06 ---------------- *)
let ops_c06 = [
  "mstep", (fun f -> show_res (run opf_exec (nat_of_int 20000) (start (parse_val f.(1)) (parse_val f.(2)))));
]

(* ---------------- C12 ---------------- *)
let show_row = function
  | ROp (n, h, args, v) -> Printf.sprintf "OP %s %s %s" (hex_of_bytes h) (print_val args) (print_val v)
  | RValue (n, v) -> "VALUE " ^ print_val v
  | RFinal v -> "FINAL " ^ print_val v
  | RFailure -> "FAILURE"
let ops_c12 = [
  "mcldb", (fun f -> String.concat " | " (List.map show_row (trace opf_exec (nat_of_int 60000) (cldb_start (parse_val f.(1)) (parse_val f.(2))))));
]

(* ---------------- C10 ---------------- *)
let rec int_of_nat = function O -> 0 | S n -> 1 + int_of_nat n
let parse_set t = List.map (fun x -> nat_of_int (int_of_string x)) (List.filter (fun x -> x <> "") (String.split_on_char ',' t))
let parse_items t =
  if t = "" then [] else
  List.mapi (fun i it -> match String.split_on_char ';' it with
    | [n; h] -> { idx = nat_of_int i; needs = parse_set n; has = parse_set h }
    | [n] -> { idx = nat_of_int i; needs = parse_set n; has = [] }
    | _ -> failwith "item") (String.split_on_char '|' t)
let show_order o = String.concat "," (List.map (fun it -> string_of_int (int_of_nat it.idx)) o)
let ops_c10 = [
  "mtoposort", (fun f -> match toposort (parse_items f.(1)) with
     | Ok o -> "OK " ^ show_order o | Fail -> "DEADLOCK" | Oof -> "OOF");
  "mstages", (fun f -> match toposort (parse_items f.(1)) with
     | Ok o -> "OK " ^ show_order o ^ " # " ^ String.concat "|" (List.map show_order (assign_stages o))
     | Fail -> "DEADLOCK" | Oof -> "OOF");
]

(* ---------------- C16 / C17: the evaluator model ---------------- *)
let tokenize_expr (s : string) : string list =
  let b = Buffer.create (String.length s + 16) in
  String.iter (fun c -> match c with '[' -> Buffer.add_string b " [ " | ']' -> Buffer.add_string b " ] " | c -> Buffer.add_char b c) s;
  List.filter (fun x -> x <> "") (String.split_on_char ' ' (Buffer.contents b))
let unders s = String.map (fun c -> if c = '_' then ' ' else c) s
let rec parse_expr_toks (t : string list) : expr * string list =
  match t with
  | "[" :: "C" :: v :: "]" :: r -> (EConst (parse_val (unders v)), r)
  | "[" :: "V" :: n :: "]" :: r -> (EVar (nat_of_int (int_of_string n)), r)
  | "[" :: "L" :: n :: "]" :: r -> (ELocal (nat_of_int (int_of_string n)), r)
  | "[" :: "O" :: h :: r -> let (args, r') = parse_exprs r in (EOp (bytes_of_hex h, args), r')
  | "[" :: "I" :: r ->
    let (c, r1) = parse_expr_toks r in let (a, r2) = parse_expr_toks r1 in let (b, r3) = parse_expr_toks r2 in
    (match r3 with "]" :: r4 -> (EIf (c, a, b), r4) | _ -> failwith "if")
  | "[" :: "F" :: g :: r -> let (args, r') = parse_exprs r in (ECall (nat_of_int (int_of_string g), args), r')
  | _ -> failwith "expr"
and parse_exprs (t : string list) : expr list * string list =
  match t with
  | "]" :: r -> ([], r)
  | _ -> let (e, r) = parse_expr_toks t in let (es, r') = parse_exprs r in (e :: es, r')
let parse_expr s = fst (parse_expr_toks (tokenize_expr s))
let parse_funs s = if s = "" then [] else List.map parse_expr (String.split_on_char ';' s)
let unders_out s = String.map (fun c -> if c = ' ' then '_' else c) s
let rec print_expr = function
  | EConst v -> "[C " ^ unders_out (print_val v) ^ "]"
  | EVar n -> "[V " ^ string_of_int (int_of_nat n) ^ "]"
  | ELocal n -> "[L " ^ string_of_int (int_of_nat n) ^ "]"
  | EOp (h, args) -> "[O " ^ hex_of_bytes h ^ String.concat "" (List.map (fun a -> " " ^ print_expr a) args) ^ "]"
  | EIf (c, a, b) -> "[I " ^ print_expr c ^ " " ^ print_expr a ^ " " ^ print_expr b ^ "]"
  | ECall (g, args) -> "[F " ^ string_of_int (int_of_nat g) ^ String.concat "" (List.map (fun a -> " " ^ print_expr a) args) ^ "]"
let parse_vals s = if s = "" then [] else List.map (fun v -> parse_val (unders v)) (String.split_on_char ',' s)
let parse_known s = if s = "" then [] else List.map (fun v -> if v = "-" then None else Some (parse_val (unders v))) (String.split_on_char ',' s)
let ops_pe = [
  (* pe_eval fuel funs rho body *)
  "pe_eval", (fun f -> match seval opf_exec (parse_funs f.(2)) (fuel_of f.(1)) (parse_vals f.(3)) [] (parse_expr f.(4)) with
     | Some v -> "OK " ^ print_val v | None -> "FAIL");
  (* pe_shrink fuel funs known body *)
  "pe_shrink", (fun f -> match shrink opf_exec (parse_funs f.(2)) (fuel_of f.(1)) (parse_known f.(3)) [] (parse_expr f.(4)) with
     | Some e -> "OK " ^ print_expr e | None -> "LIMIT");
  (* pe_unused fuel funs nparams body *)
  "pe_unused", (fun f ->
     let np = int_of_string f.(3) in
     let funs = parse_funs f.(2) and body = parse_expr f.(4) and fuel = fuel_of f.(1) in
     match shrink opf_exec funs fuel (List.init np (fun _ -> None)) [] body with
     | None -> "LIMIT"
     | Some r -> "OK " ^ String.concat "," (List.filter_map (fun i -> if mentions (nat_of_int i) r then None else Some (string_of_int i)) (List.init np (fun i -> i))));
]

(*OPS-INSERT*)

let all_ops : (string, string array -> string) Hashtbl.t = Hashtbl.create 64
let () = List.iter (fun l -> List.iter (fun (k, v) -> Hashtbl.replace all_ops k v) l) [ops_c20; ops_c08; ops_c07; ops_c04; ops_c06; ops_c12; ops_c10; ops_pe (*OPS-LIST*)]

let dispatch (f : string array) : string =
  match Hashtbl.find_opt all_ops f.(0) with
  | Some g -> g f
  | None -> "BADOP " ^ f.(0)

let () =
  try
    while true do
      let line = input_line stdin in
      if line <> "" then begin
        let f = Array.of_list (String.split_on_char '\t' line) in
        let r = try dispatch f with
          | Stack_overflow -> "MODEL-STACK-OVERFLOW"
          | Failure m -> "MODEL-FAILURE " ^ m
          | Not_found -> "MODEL-NOTFOUND" in
        print_string r; print_newline ()
      end
    done
  with End_of_file -> ()
